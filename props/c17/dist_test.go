//go:build go1.25

// C17, distributor level (Engine B, bounded-exhaustive enumeration).
//
// submission.NewDistributor + RefreshRoots + Distributor.AddChain / AddPreChain
// with a scripted LogClientBuilder whose clients record every call. Every case
// runs in its own testing/synctest bubble, so the one-second stagger of
// submission.GetSCTs and the two-millisecond answer latency of the scripted logs
// are virtual and every case is deterministic.
//
// The reference model below is written from the statement of the property and
// from the policy tables, never from the code under test:
//
//	compatible(log) = usable(log)
//	                  and (no interval or start <= NotAfter < end)
//	                  and (roots unknown or chain's root in roots)
//	minimum(lifetime) = 2 if < 15 months, 3 if <= 27 months, 4 if <= 39 months, else 5
//	chrome: >= 1 Google-operated, >= 1 other, >= minimum in total;  apple: >= minimum
package c17

import (
	"context"
	"crypto/sha256"
	"errors"
	"fmt"
	"sort"
	"strings"
	"sync"
	"sync/atomic"
	"testing"
	"testing/synctest"
	"time"

	"verif/engine/enum"
	"verif/engine/rep"
	"verif/ref/pki"

	ct "github.com/google/certificate-transparency-go"
	"github.com/google/certificate-transparency-go/client"
	"github.com/google/certificate-transparency-go/ctpolicy"
	"github.com/google/certificate-transparency-go/loglist3"
	"github.com/google/certificate-transparency-go/submission"
	"github.com/google/certificate-transparency-go/x509"
)

// ---- alphabets ------------------------------------------------------------------------

var (
	dStatuses  = []string{"usable", "pending", "qualified", "readonly", "retired", "rejected", "nostate", "emptystate"}
	dIntervals = []string{"none", "contains", "start==NotAfter", "end==NotAfter", "end==NotAfter+1s", "start==NotAfter+1s", "before", "after"}
	dRoots     = []string{"unknown", "include", "include+other", "exclude", "known-empty"}
)

// dLog is one log of a scripted log list.
type dLog struct {
	URL      string
	Google   bool
	Status   string
	Interval string
	Roots    string
	Answer   string // "sct" or "err"
	// RootsFirst != "": roots are refreshed twice; the first get-roots call is answered as RootsFirst,
	// the second as Roots. What the distributor knows is what the latest refresh told it.
	RootsFirst string
}

func (l dLog) String() string {
	op := "other"
	if l.Google {
		op = "google"
	}
	ro := l.Roots
	if l.RootsFirst != "" {
		ro = l.RootsFirst + "-then-" + l.Roots
	}
	return fmt.Sprintf("%s(%s,%s,interval=%s,roots=%s,%s)", l.URL, op, l.Status, l.Interval, ro, l.Answer)
}

// dLife is one certificate validity.
type dLife struct {
	Name      string
	NotBefore time.Time
	NotAfter  time.Time
}

// dCase is one enumerated case.
type dCase struct {
	Family   string
	Policy   string // "chrome" | "apple"
	Logs     []dLog
	V        string // URL of the variant log ("" when there is none)
	Life     int
	Pre      bool // the leaf is a precertificate
	WithRoot bool // the submitted chain ends with the root itself
	AsPre    bool // endpoint: AddPreChain
	Refresh  bool // RefreshRoots is called before the submission
}

func (c dCase) String() string {
	var ls []string
	for _, l := range c.Logs {
		ls = append(ls, l.String())
	}
	kind, ep := "cert", "AddChain"
	if c.Pre {
		kind = "precert"
	}
	if c.AsPre {
		ep = "AddPreChain"
	}
	return fmt.Sprintf("[%s] %s lifetime=%s %s->%s withRoot=%v refresh=%v variant=%s logs=%s", c.Family, c.Policy, dLives[c.Life].Name, kind, ep, c.WithRoot, c.Refresh, c.V, strings.Join(ls, " "))
}

// ---- certificates (ground truth comes from the templates) -------------------------------

var (
	dRootR   = pki.NewRoot("C17D Root R", pki.LoadKey("p256-0"))
	dRootR2  = pki.NewRoot("C17D Root R2", pki.LoadKey("p256-1"))
	dInter   = pki.NewCA("C17D Intermediate", pki.LoadKey("p256-3"), dRootR, pki.CAOpts{})
	dLives   []dLife
	dLeaves  = map[[2]int]*pki.Cert{} // (life, pre) -> leaf
	dLifeIdx = map[string]int{}
)

func dDate(y, m, d int) time.Time { return time.Date(y, time.Month(m), d, 0, 0, 0, 0, time.UTC) }

func init() {
	s1 := pki.T0 // 2024-01-01 00:00:00 UTC
	s2 := time.Date(2024, 1, 15, 12, 0, 0, 0, time.UTC)
	add := func(name string, nb, na time.Time) {
		dLifeIdx[name] = len(dLives)
		dLives = append(dLives, dLife{name, nb, na})
	}
	for _, b := range []int{15, 27, 39} {
		add(fmt.Sprintf("%dm-1d", b), s1, s1.AddDate(0, b, -1))
		add(fmt.Sprintf("%dm-1s", b), s1, s1.AddDate(0, b, 0).Add(-time.Second))
		add(fmt.Sprintf("%dm", b), s1, s1.AddDate(0, b, 0))
		add(fmt.Sprintf("%dm+1s", b), s1, s1.AddDate(0, b, 0).Add(time.Second))
		add(fmt.Sprintf("%dm+1d", b), s1, s1.AddDate(0, b, 1))
		add(fmt.Sprintf("%dm+1month", b), s1, s1.AddDate(0, b+1, 0))
		add(fmt.Sprintf("mid:%dm-1d", b), s2, s2.AddDate(0, b, -1))
		add(fmt.Sprintf("mid:%dm", b), s2, s2.AddDate(0, b, 0))
		add(fmt.Sprintf("mid:%dm+1d", b), s2, s2.AddDate(0, b, 1))
		add(fmt.Sprintf("mid:%dm-12h", b), s2, s2.AddDate(0, b, 0).Add(-12*time.Hour))
		add(fmt.Sprintf("mid:%dm+12h", b), s2, s2.AddDate(0, b, 0).Add(12*time.Hour))
	}
	add("3m", s1, s1.AddDate(0, 3, 0))
	add("12m", s1, s1.AddDate(0, 12, 0))
	add("24m", s1, s1.AddDate(0, 24, 0))
	add("36m", s1, s1.AddDate(0, 36, 0))
	add("60m", s1, s1.AddDate(0, 60, 0))
	aki := dInter.T.Key.KeyHash()
	for i, l := range dLives {
		for p := 0; p < 2; p++ {
			exts := []pki.Ext{pki.ExtSAN("c17d.example"), pki.ExtAKI(aki[:20])}
			if p == 1 {
				exts = append(exts, pki.ExtPoison())
			}
			c := pki.Build(pki.Tmpl{Serial: []byte{0x17, byte(i), byte(p)}, Issuer: dInter.T.Subject, Subject: pki.CN("c17d leaf"),
				NotBefore: l.NotBefore, NotAfter: l.NotAfter, Key: pki.LoadKey("p256-2"), Exts: exts}, dInter.T.Key)
			c.Parent = dInter
			dLeaves[[2]int{i, p}] = c
		}
	}
}

// ---- reference model ------------------------------------------------------------------

// refMinimum is the number of SCTs the Chrome / Apple tables ask for: "< 15
// months: 2; >= 15 and <= 27 months: 3; > 27 and <= 39 months: 4; > 39 months:
// 5". A lifetime is at most k months iff the NotAfter date is not later than the
// NotBefore date moved k calendar months on (calendar-day granularity).
func refMinimum(l dLife) int {
	day := func(t time.Time) time.Time {
		y, m, d := t.UTC().Date()
		return time.Date(y, m, d, 0, 0, 0, 0, time.UTC)
	}
	nb, na := day(l.NotBefore), day(l.NotAfter)
	switch {
	case na.Before(nb.AddDate(0, 15, 0)):
		return 2
	case !na.After(nb.AddDate(0, 27, 0)):
		return 3
	case !na.After(nb.AddDate(0, 39, 0)):
		return 4
	}
	return 5
}

func dInterval(kind string, na time.Time) *loglist3.TemporalInterval {
	h := time.Hour
	switch kind {
	case "none":
		return nil
	case "contains":
		return &loglist3.TemporalInterval{StartInclusive: na.Add(-h), EndExclusive: na.Add(h)}
	case "start==NotAfter":
		return &loglist3.TemporalInterval{StartInclusive: na, EndExclusive: na.Add(h)}
	case "end==NotAfter":
		return &loglist3.TemporalInterval{StartInclusive: na.Add(-h), EndExclusive: na}
	case "end==NotAfter+1s":
		return &loglist3.TemporalInterval{StartInclusive: na.Add(-h), EndExclusive: na.Add(time.Second)}
	case "start==NotAfter+1s":
		return &loglist3.TemporalInterval{StartInclusive: na.Add(time.Second), EndExclusive: na.Add(h)}
	case "before":
		return &loglist3.TemporalInterval{StartInclusive: na.Add(-2 * h), EndExclusive: na.Add(-h)}
	case "after":
		return &loglist3.TemporalInterval{StartInclusive: na.Add(h), EndExclusive: na.Add(2 * h)}
	}
	panic("interval kind " + kind)
}

// refCompatible decides from the statement whether a log may be contacted.
// rootsAsked tells whether the distributor was given the chance to learn roots.
func refCompatible(l dLog, na time.Time, rootsAsked bool) (ok bool, reason string) {
	if l.Status != "usable" {
		return false, "status=" + l.Status
	}
	if iv := dInterval(l.Interval, na); iv != nil {
		if na.Before(iv.StartInclusive) || !na.Before(iv.EndExclusive) {
			return false, "interval=" + l.Interval
		}
	}
	if rootsAsked {
		switch l.Roots {
		case "exclude", "known-empty":
			return false, "roots=" + l.Roots
		}
	}
	return true, ""
}

// refSat tells whether a set of logs satisfies the policy; missing names the
// first unmet group.
func refSat(policy string, min int, logs []dLog, in func(url string) bool) (ok bool, missing string) {
	g, n := 0, 0
	for _, l := range logs {
		if in(l.URL) {
			if l.Google {
				g++
			} else {
				n++
			}
		}
	}
	if policy == "chrome" {
		if g < 1 {
			return false, "google-operated"
		}
		if n < 1 {
			return false, "non-google-operated"
		}
	}
	if g+n < min {
		return false, "total"
	}
	return true, ""
}

// ---- scripted logs ----------------------------------------------------------------------

type dCall struct {
	URL   string
	Pre   bool
	Chain []ct.ASN1Cert
}

type dRecorder struct {
	mu     sync.Mutex
	calls  []dCall
	scts   map[string]*ct.SignedCertificateTimestamp
	built  []string
	rootsQ map[string]int
}

type dClient struct {
	l   dLog
	rec *dRecorder
}

func (c *dClient) submit(ctx context.Context, chain []ct.ASN1Cert, pre bool) (*ct.SignedCertificateTimestamp, error) {
	c.rec.mu.Lock()
	c.rec.calls = append(c.rec.calls, dCall{c.l.URL, pre, chain})
	c.rec.mu.Unlock()
	// every log answers after 2 ms (virtual): all requests of one instant are
	// issued before the first answer arrives
	select {
	case <-ctx.Done():
		return nil, ctx.Err()
	case <-time.After(2 * time.Millisecond):
	}
	if c.l.Answer == "err" {
		return nil, errors.New("log says no")
	}
	sct := &ct.SignedCertificateTimestamp{SCTVersion: ct.V1, LogID: ct.LogID{KeyID: sha256.Sum256([]byte(c.l.URL))}, Timestamp: 1700000000000}
	c.rec.mu.Lock()
	c.rec.scts[c.l.URL] = sct
	c.rec.mu.Unlock()
	return sct, nil
}

func (c *dClient) AddChain(ctx context.Context, chain []ct.ASN1Cert) (*ct.SignedCertificateTimestamp, error) {
	return c.submit(ctx, chain, false)
}
func (c *dClient) AddPreChain(ctx context.Context, chain []ct.ASN1Cert) (*ct.SignedCertificateTimestamp, error) {
	return c.submit(ctx, chain, true)
}
func (c *dClient) GetAcceptedRoots(ctx context.Context) ([]ct.ASN1Cert, error) {
	c.rec.mu.Lock()
	c.rec.rootsQ[c.l.URL]++
	nth := c.rec.rootsQ[c.l.URL]
	c.rec.mu.Unlock()
	kind := c.l.Roots
	if c.l.RootsFirst != "" && nth == 1 {
		kind = c.l.RootsFirst
	}
	switch kind {
	case "unknown":
		return nil, errors.New("get-roots unavailable")
	case "include":
		return []ct.ASN1Cert{{Data: dRootR.DER}}, nil
	case "include+other":
		return []ct.ASN1Cert{{Data: dRootR2.DER}, {Data: dRootR.DER}}, nil
	case "exclude":
		return []ct.ASN1Cert{{Data: dRootR2.DER}}, nil
	case "known-empty":
		return []ct.ASN1Cert{}, nil
	}
	panic("roots kind " + c.l.Roots)
}

func dState(s string) *loglist3.LogStates {
	st := &loglist3.LogState{Timestamp: pki.T0}
	switch s {
	case "usable":
		return &loglist3.LogStates{Usable: st}
	case "pending":
		return &loglist3.LogStates{Pending: st}
	case "qualified":
		return &loglist3.LogStates{Qualified: st}
	case "readonly":
		return &loglist3.LogStates{ReadOnly: &loglist3.ReadOnlyLogState{LogState: *st}}
	case "retired":
		return &loglist3.LogStates{Retired: st}
	case "rejected":
		return &loglist3.LogStates{Rejected: st}
	case "nostate":
		return nil
	case "emptystate":
		return &loglist3.LogStates{}
	}
	panic("status " + s)
}

func dList(logs []dLog, na time.Time) *loglist3.LogList {
	goog := &loglist3.Operator{Name: "Google", Email: []string{"google-ct-logs@googlegroups.com"}}
	oth := &loglist3.Operator{Name: "Other", Email: []string{"ct@other.example"}}
	for _, l := range logs {
		lg := &loglist3.Log{URL: l.URL, Description: l.URL, State: dState(l.Status), TemporalInterval: dInterval(l.Interval, na)}
		if l.Google {
			goog.Logs = append(goog.Logs, lg)
		} else {
			oth.Logs = append(oth.Logs, lg)
		}
	}
	ll := &loglist3.LogList{}
	for _, op := range []*loglist3.Operator{goog, oth} {
		if len(op.Logs) > 0 {
			ll.Operators = append(ll.Operators, op)
		}
	}
	return ll
}

// orderedPolicy delegates to the real policy and then fixes the session order
// of every group through the public weight API: the variant log is tried first
// in its operator group (Chrome) or in the base group (Apple); the base group of
// Chrome starts with logs that no operator group starts with, logs of the other
// operator class than the variant's first, so that every request of the first
// instant goes to a different log.
type orderedPolicy struct {
	inner ctpolicy.CTPolicy
	v     string
	mu    *sync.Mutex
	seen  *[][]string // log lists handed to the policy
	mins  *map[string]int
}

func (p orderedPolicy) Name() string { return p.inner.Name() }

func (p orderedPolicy) LogsByGroup(cert *x509.Certificate, approved *loglist3.LogList) (ctpolicy.LogPolicyData, error) {
	groups, err := p.inner.LogsByGroup(cert, approved)
	var urls []string
	for _, op := range approved.Operators {
		for _, l := range op.Logs {
			urls = append(urls, l.URL)
		}
	}
	sort.Strings(urls)
	p.mu.Lock()
	*p.seen = append(*p.seen, urls)
	if err == nil {
		m := map[string]int{}
		for n, g := range groups {
			m[n] = g.MinInclusions
		}
		*p.mins = m
	}
	p.mu.Unlock()
	if err != nil {
		return groups, err
	}
	order := func(g *ctpolicy.LogGroupInfo, seq []string) error {
		w := map[string]float32{}
		cur := float32(1e32)
		for _, u := range seq {
			w[u] = cur
			cur /= 1e7
		}
		return g.SetLogWeights(w)
	}
	first := map[string]bool{}
	vClass := ""
	for name, g := range groups {
		if g.IsBase {
			continue
		}
		var seq []string
		for u := range g.LogURLs {
			if u != p.v {
				seq = append(seq, u)
			}
		}
		sort.Strings(seq)
		if g.LogURLs[p.v] {
			seq = append([]string{p.v}, seq...)
			vClass = name
		}
		if len(seq) > 0 {
			first[seq[0]] = true
			if err := order(g, seq); err != nil {
				return nil, fmt.Errorf("harness: %v", err)
			}
		}
	}
	if b := groups[ctpolicy.BaseName]; b != nil && len(b.LogURLs) > 0 {
		var other, same, last []string
		for u := range b.LogURLs {
			switch {
			case first[u]:
				last = append(last, u)
			case vClass != "" && groups[vClass].LogURLs[u]:
				same = append(same, u)
			default:
				other = append(other, u)
			}
		}
		sort.Strings(other)
		sort.Strings(same)
		sort.Strings(last)
		seq := append(append(other, same...), last...)
		if len(groups) == 1 && b.LogURLs[p.v] {
			// Apple: the variant first
			seq = []string{p.v}
			for _, u := range append(append(other, same...), last...) {
				if u != p.v {
					seq = append(seq, u)
				}
			}
		}
		if err := order(b, seq); err != nil {
			return nil, fmt.Errorf("harness: %v", err)
		}
	}
	return groups, nil
}

// ---- one case ---------------------------------------------------------------------------

type dResult struct {
	err      error
	scts     []*submission.AssignedSCT
	calls    []dCall
	sctByLog map[string]*ct.SignedCertificateTimestamp
	seen     [][]string
	mins     map[string]int
	newErr   error
	returned bool
}

func dChain(c dCase) (raw [][]byte, leaf *pki.Cert) {
	p := 0
	if c.Pre {
		p = 1
	}
	leaf = dLeaves[[2]int{c.Life, p}]
	raw = [][]byte{leaf.DER, dInter.DER}
	if c.WithRoot {
		raw = append(raw, dRootR.DER)
	}
	return
}

// dExec runs the case inside the current synctest bubble.
func dExec(c dCase) (res dResult) {
	rec := &dRecorder{scts: map[string]*ct.SignedCertificateTimestamp{}, rootsQ: map[string]int{}}
	byURL := map[string]dLog{}
	for _, l := range c.Logs {
		byURL[l.URL] = l
	}
	builder := func(l *loglist3.Log) (client.AddLogClient, error) {
		rec.mu.Lock()
		rec.built = append(rec.built, l.URL)
		rec.mu.Unlock()
		return &dClient{l: byURL[l.URL], rec: rec}, nil
	}
	var inner ctpolicy.CTPolicy = ctpolicy.ChromeCTPolicy{}
	if c.Policy == "apple" {
		inner = ctpolicy.AppleCTPolicy{}
	}
	var seen [][]string
	var mins map[string]int
	pol := orderedPolicy{inner: inner, v: c.V, mu: &rec.mu, seen: &seen, mins: &mins}
	raw, leaf := dChain(c)
	d, err := submission.NewDistributor(dList(c.Logs, leaf.T.NotAfter), pol, builder, nil)
	if err != nil {
		res.newErr = err
		return
	}
	ctx, cancel := context.WithTimeout(context.Background(), time.Hour)
	defer cancel()
	if c.Refresh {
		d.RefreshRoots(ctx) // per-log failures are part of the script
		for _, l := range c.Logs {
			if l.RootsFirst != "" {
				d.RefreshRoots(ctx) // a later refresh: its results replace the earlier ones
				break
			}
		}
	}
	done := make(chan struct{})
	go func() {
		defer close(done)
		if c.AsPre {
			res.scts, res.err = d.AddPreChain(ctx, raw, false)
		} else {
			res.scts, res.err = d.AddChain(ctx, raw, false)
		}
	}()
	select {
	case <-done:
		res.returned = true
	case <-time.After(30 * time.Minute):
		cancel()
		<-done
	}
	cancel()
	// let stragglers run to their end before the books are read
	synctest.Wait()
	rec.mu.Lock()
	defer rec.mu.Unlock()
	res.calls = append(res.calls, rec.calls...)
	res.sctByLog = rec.scts
	res.seen = seen
	res.mins = mins
	return
}

type dChecker struct {
	r        *rep.R
	contacts atomic.Int64
	succ     atomic.Int64
	fail     atomic.Int64
	unsatHit atomic.Int64
	mu       sync.Mutex
	samples  map[string]any // written-out example cases, by fixed key (the reporter's own few sample slots are taken by the exploration part)
}

func (k *dChecker) check(c dCase, res dResult) {
	r := k.r
	life := dLives[c.Life]
	viol := func(sig, format string, a ...any) {
		r.Violation("dist-"+sig, fmt.Sprintf("%v: ", c)+fmt.Sprintf(format, a...), map[string]any{"case": c, "case_text": c.String()})
	}
	if res.newErr != nil {
		viol("new-distributor-failed", "%v", res.newErr)
		return
	}
	if !res.returned {
		viol("no-return-within-30min-virtual", "the call only returned after its context was cancelled (error: %v)", res.err)
	}
	byURL := map[string]dLog{}
	for _, l := range c.Logs {
		byURL[l.URL] = l
	}
	// ---- reference
	min := refMinimum(life)
	compat := map[string]bool{}
	rootKnownSomewhere := false
	for _, l := range c.Logs {
		// (only names the circumstance in a signature: does some usable log vouch for the chain's root?)
		if c.Refresh && l.Status == "usable" && (l.Roots == "include" || l.Roots == "include+other") {
			rootKnownSomewhere = true
		}
		if ok, _ := refCompatible(l, life.NotAfter, c.Refresh); ok {
			compat[l.URL] = true
		}
	}
	satisfiable, _ := refSat(c.Policy, min, c.Logs, func(u string) bool { return compat[u] && byURL[u].Answer == "sct" })
	mismatch := c.Pre != c.AsPre
	r.Add("dist_cases "+strings.SplitN(c.Family, "/", 2)[0], 1)
	if _, ok := byURL[c.V]; ok && !mismatch {
		if compat[c.V] {
			r.Add("dist_variant_log_compatible_cases", 1)
		} else {
			r.Add("dist_variant_log_incompatible_cases", 1)
		}
	}
	// ---- contacted logs
	raw, _ := dChain(c)
	count := map[string]int{}
	for _, call := range res.calls {
		count[call.URL]++
		k.contacts.Add(1)
		if call.URL == c.V {
			r.Add("dist_variant_log_contacted", 1)
		}
		l := byURL[call.URL]
		if ok, why := refCompatible(l, life.NotAfter, c.Refresh); !ok {
			viol(fmt.Sprintf("contacted-incompatible-log reason=%s root-known-to-some-usable-log=%v", why, rootKnownSomewhere),
				"log %v received the chain although the reference excludes it (%s); log lists handed to the policy: %v", l, why, res.seen)
		}
		if call.Pre != c.AsPre {
			viol("wrong-log-endpoint", "log %s was called with pre=%v", call.URL, call.Pre)
		}
		okChain := len(call.Chain) >= len(raw) && len(call.Chain) <= 3
		for i := range call.Chain {
			switch {
			case i < len(raw):
				okChain = okChain && string(call.Chain[i].Data) == string(raw[i])
			default:
				okChain = okChain && string(call.Chain[i].Data) == string(dRootR.DER)
			}
		}
		if !okChain {
			viol("chain-altered", "log %s received a chain of %d certificates that is not the submitted chain (optionally completed by its root)", call.URL, len(call.Chain))
		}
	}
	if c.V != "" && !mismatch && count[c.V] == 0 {
		// the session order puts the variant log first: if the policy was handed a list
		// with it and any log was contacted, it must have been among them (diagnostic of
		// the harness' order forcing, expected 0)
		for _, list := range res.seen {
			for _, u := range list {
				if u == c.V && len(res.calls) > 0 {
					r.Add("dist_variant_log_listed_but_not_contacted", 1)
				}
			}
		}
	}
	for u, n := range count {
		if n > 1 {
			viol("log-asked-twice", "%s received the chain %d times", u, n)
		}
	}
	// ---- returned SCTs
	got := map[string]bool{}
	var urls []string
	for _, a := range res.scts {
		if a == nil || a.SCT == nil {
			viol("nil-sct-returned", "nil entry in the result")
			continue
		}
		if got[a.LogURL] {
			viol("duplicate-log-in-result", "%s twice", a.LogURL)
		}
		got[a.LogURL] = true
		urls = append(urls, a.LogURL)
		if res.sctByLog[a.LogURL] != a.SCT {
			viol("foreign-sct", "the SCT attributed to %s is not the one that log issued", a.LogURL)
		}
	}
	sort.Strings(urls)
	if mismatch {
		if res.err == nil {
			viol("kind-mismatch-accepted", "precert=%v submitted through AddPreChain=%v reported success", c.Pre, c.AsPre)
		}
		if len(res.calls) > 0 {
			viol("kind-mismatch-contacted-logs", "precert=%v submitted through AddPreChain=%v reached %d logs", c.Pre, c.AsPre, len(res.calls))
		}
		return
	}
	r.Nontrivial(c.String())
	libTotal := "unseen" // the base minimum the library's policy computed, when it got that far
	if n, ok := res.mins[ctpolicy.BaseName]; ok {
		libTotal = fmt.Sprint(n)
	}
	if res.err == nil {
		k.succ.Add(1)
		if ok, missing := refSat(c.Policy, min, c.Logs, func(u string) bool { return got[u] }); !ok {
			viol(fmt.Sprintf("success-without-policy policy=%s unmet=%s reference-total=%d library-total=%s", c.Policy, missing, min, libTotal),
				"reported success with SCTs from %v; the reference asks for %d in total (lifetime %s: %s .. %s); library group minima %v",
				urls, min, life.Name, life.NotBefore.Format(time.RFC3339), life.NotAfter.Format(time.RFC3339), res.mins)
		}
	} else {
		k.fail.Add(1)
		if len(res.calls) > 0 {
			k.unsatHit.Add(1)
		}
		if satisfiable {
			_, missing := refSat(c.Policy, min, c.Logs, func(u string) bool { return got[u] })
			sig := "failure-despite-enough-compatible-logs policy=" + c.Policy
			if libTotal != "unseen" && libTotal != fmt.Sprint(min) {
				sig += fmt.Sprintf(" reference-total=%d library-total=%s", min, libTotal)
			}
			viol(sig,
				"the reference-compatible logs that answer with an SCT (%v) satisfy the policy (minimum %d), yet: %v (SCTs from %v, unmet %s; log lists handed to the policy: %v; library group minima %v)",
				keys(compat), min, res.err, urls, missing, res.seen, res.mins)
		}
	}
	if v, ok := byURL[c.V]; ok && v.Status == "usable" && v.Roots == "unknown" && v.Answer == "sct" && !c.WithRoot && c.Pre && life.Name == "39m" &&
		(v.Interval == "end==NotAfter+1s" || v.Interval == "end==NotAfter") && strings.HasSuffix(c.Family, "needed-total") && c.Policy == "chrome" && v.Google {
		k.mu.Lock()
		k.samples[v.Interval] = map[string]any{"case": c.String(), "reference_compatible": keys(compat), "reference_minimum": min,
			"contacted": keys2(count), "scts_from": urls, "error": fmt.Sprint(res.err)}
		k.mu.Unlock()
	}
}

func keys(m map[string]bool) []string {
	var ks []string
	for k, v := range m {
		if v {
			ks = append(ks, k)
		}
	}
	sort.Strings(ks)
	return ks
}

func keys2(m map[string]int) []string {
	var ks []string
	for k := range m {
		ks = append(ks, k)
	}
	sort.Strings(ks)
	return ks
}

// ---- enumeration --------------------------------------------------------------------------

func dPlain(url string, google bool) dLog {
	return dLog{URL: url, Google: google, Status: "usable", Interval: "none", Roots: "include", Answer: "sct"}
}

func dCompanions(nGoogle, nOther int) []dLog {
	var out []dLog
	for i := 1; i <= nGoogle; i++ {
		out = append(out, dPlain(fmt.Sprintf("https://g%d.example/", i), true))
	}
	for i := 1; i <= nOther; i++ {
		out = append(out, dPlain(fmt.Sprintf("https://n%d.example/", i), false))
	}
	return out
}

const dV = "https://variant.example/"

// dPlacements lists (policy, variant operated by Google, design, companions) for
// a reference minimum: "surplus" = the companions satisfy the policy alone;
// "needed-total" = the companions are one short in total; "needed-group" = the
// companions lack the variant's operator class.
type dPlacement struct {
	policy  string
	vGoogle bool
	design  string
	comp    []dLog
}

func dPlacements(min int) []dPlacement {
	var out []dPlacement
	for _, vg := range []bool{true, false} {
		same := func(n int) (int, int) { // n logs of the variant's class, the rest of the other class
			if vg {
				return n, 0
			}
			return 0, n
		}
		mix := func(nSame, nOther int) []dLog {
			a, b := same(nSame)
			if vg {
				b += nOther
			} else {
				a += nOther
			}
			return dCompanions(a, b)
		}
		out = append(out,
			dPlacement{"chrome", vg, "surplus", mix(1, min-1)},
			dPlacement{"chrome", vg, "needed-total", mix(1, min-2)},
			dPlacement{"chrome", vg, "needed-group", mix(0, min)})
	}
	out = append(out,
		dPlacement{"apple", false, "surplus", dCompanions(1, min-1)},
		dPlacement{"apple", false, "needed-total", dCompanions(1, min-2)})
	return out
}

func dCases(thorough bool) []dCase {
	var out []dCase
	life := func(n string) int {
		i, ok := dLifeIdx[n]
		if !ok {
			panic("lifetime " + n)
		}
		return i
	}
	bools := []bool{false, true}
	// ---- family "filter": every single-log variation in every placement
	filterLives := []string{"15m", "39m"}
	if thorough {
		filterLives = []string{"12m", "15m", "36m", "39m", "60m"}
	}
	positions := []string{"first"}
	if thorough {
		positions = []string{"first", "last"}
	}
	for _, ln := range filterLives {
		li := life(ln)
		for _, pl := range dPlacements(refMinimum(dLives[li])) {
			for _, st := range dStatuses {
				for _, iv := range dIntervals {
					for _, ro := range dRoots {
						answers := []string{"sct"}
						if st == "usable" && (thorough || pl.policy == "apple" || (iv == "contains" || iv == "end==NotAfter")) {
							answers = []string{"sct", "err"}
						}
						for _, an := range answers {
							for _, pos := range positions {
								v := dLog{URL: dV, Google: pl.vGoogle, Status: st, Interval: iv, Roots: ro, Answer: an}
								logs := append([]dLog{v}, pl.comp...)
								if pos == "last" {
									logs = append(append([]dLog{}, pl.comp...), v)
								}
								for _, pre := range bools {
									for _, wr := range bools {
										if !thorough && ln != filterLives[0] && pre == wr {
											continue // quick: the second lifetime with {cert with root, precert without} only
										}
										out = append(out, dCase{Family: "filter/" + pl.design, Policy: pl.policy, Logs: logs, V: dV, Life: li, Pre: pre, WithRoot: wr, AsPre: pre, Refresh: true})
									}
								}
							}
						}
					}
				}
			}
		}
	}
	// ---- family "mismatch": the wrong endpoint for the kind of leaf
	for _, pl := range dPlacements(3) {
		for _, st := range []string{"usable", "retired"} {
			for _, ro := range []string{"unknown", "include", "exclude"} {
				for _, pre := range bools {
					for _, wr := range bools {
						v := dLog{URL: dV, Google: pl.vGoogle, Status: st, Interval: "contains", Roots: ro, Answer: "sct"}
						out = append(out, dCase{Family: "mismatch/" + pl.design, Policy: pl.policy, Logs: append([]dLog{v}, pl.comp...), V: dV, Life: life("15m"), Pre: pre, WithRoot: wr, AsPre: !pre, Refresh: true})
					}
				}
			}
		}
	}
	// ---- family "roots": every assignment of root knowledge to all logs of a list
	rootKinds := []string{"unknown", "include", "exclude"}
	if thorough {
		rootKinds = dRoots
	}
	for _, pol := range []string{"chrome", "apple"} {
		base := dCompanions(2, 2)
		li := life("15m") // minimum 3
		dims := []int{len(rootKinds), len(rootKinds), len(rootKinds), len(rootKinds)}
		for i := 0; i < enum.Size(dims); i++ {
			idx := enum.Decode(i, dims, nil)
			logs := append([]dLog{}, base...)
			for j := range logs {
				logs[j].Roots = rootKinds[idx[j]]
			}
			for _, pre := range bools {
				for _, wr := range bools {
					out = append(out, dCase{Family: "roots", Policy: pol, Logs: logs, Life: li, Pre: pre, WithRoot: wr, AsPre: pre, Refresh: true})
				}
			}
		}
		// roots refreshed twice: what counts is the latest refresh (a log whose get-roots fails now is of
		// unknown compatibility again, whatever an earlier refresh said)
		for _, first := range []string{"include", "exclude"} {
			for i := 0; i < enum.Size(dims); i++ {
				idx := enum.Decode(i, dims, nil)
				logs := append([]dLog{}, base...)
				for j := range logs {
					logs[j].RootsFirst, logs[j].Roots = first, rootKinds[idx[j]]
				}
				out = append(out, dCase{Family: "roots/refreshed-twice", Policy: pol, Logs: logs, Life: li, WithRoot: i%2 == 0, Refresh: true})
			}
		}
		// roots never refreshed: nothing is known about any log
		for _, ro := range rootKinds {
			logs := append([]dLog{}, base...)
			for j := range logs {
				logs[j].Roots = ro
			}
			for _, wr := range bools {
				out = append(out, dCase{Family: "roots/no-refresh", Policy: pol, Logs: logs, Life: li, WithRoot: wr, Refresh: false})
			}
		}
	}
	// ---- family "minimum": every lifetime against lists around the reference minimum
	for li, l := range dLives {
		quick := !strings.HasPrefix(l.Name, "mid:") && !strings.HasSuffix(l.Name, "1s")
		if !thorough && !quick {
			continue
		}
		min := refMinimum(l)
		type shape struct{ g, n int }
		var shapes []shape
		for _, tot := range []int{min - 1, min, min + 1} {
			shapes = append(shapes, shape{1, tot - 1}, shape{tot - 1, 1})
			if tot >= 4 {
				shapes = append(shapes, shape{2, tot - 2})
			}
		}
		shapes = append(shapes, shape{0, min + 1}, shape{min + 1, 0})
		seenShape := map[shape]bool{}
		for _, sh := range shapes {
			if sh.g < 0 || sh.n < 0 || seenShape[sh] {
				continue
			}
			seenShape[sh] = true
			for _, pol := range []string{"chrome", "apple"} {
				for _, pre := range bools {
					out = append(out, dCase{Family: "minimum", Policy: pol, Logs: dCompanions(sh.g, sh.n), Life: li, Pre: pre, WithRoot: true, AsPre: pre, Refresh: true})
				}
			}
		}
	}
	return out
}

// dPolicyTable compares the group API directly: LogsByGroup(cert, list) must fail
// exactly when the list cannot satisfy the policy and must otherwise carry the
// reference minima.
func dPolicyTable(r *rep.R) {
	for li, l := range dLives {
		min := refMinimum(l)
		c, err := x509.ParseCertificate(dLeaves[[2]int{li, 0}].DER)
		if err != nil {
			r.Violation("dist-harness", "leaf does not parse: "+err.Error(), l.Name)
			continue
		}
		for g := 0; g <= 6; g++ {
			for n := 0; n <= 6; n++ {
				for _, pol := range []string{"chrome", "apple"} {
					logs := dCompanions(g, n)
					var p ctpolicy.CTPolicy = ctpolicy.ChromeCTPolicy{}
					if pol == "apple" {
						p = ctpolicy.AppleCTPolicy{}
					}
					var groups ctpolicy.LogPolicyData
					pan, msg, stack := enum.Catch(func() { groups, err = p.LogsByGroup(c, dList(logs, l.NotAfter)) })
					r.Eval(1)
					r.Add("dist_policy_table_cases", 1)
					desc := fmt.Sprintf("%s LogsByGroup, lifetime %s (%s .. %s), %d Google + %d other logs", pol, l.Name, l.NotBefore.Format(time.RFC3339), l.NotAfter.Format(time.RFC3339), g, n)
					if pan {
						r.Violation("dist-panic LogsByGroup", desc+": "+msg+"\n"+stack, desc)
						continue
					}
					want := map[string]int{ctpolicy.BaseName: min}
					if pol == "chrome" {
						want["Google-operated"], want["Non-Google-operated"] = 1, 1
					}
					ok, _ := refSat(pol, min, logs, func(string) bool { return true })
					if err == nil {
						r.Nontrivial(desc)
						lib := map[string]int{}
						for name, gr := range groups {
							lib[name] = gr.MinInclusions
						}
						if fmt.Sprint(lib) != fmt.Sprint(want) {
							r.Violation(fmt.Sprintf("dist-group-minimum policy=%s reference-total=%d library-total=%d", pol, min, lib[ctpolicy.BaseName]), fmt.Sprintf("%s: library minima %v, reference %v", desc, lib, want), desc)
							continue
						}
					}
					if (err == nil) != ok {
						r.Violation(fmt.Sprintf("dist-policy-satisfiability-mismatch policy=%s lib_accepts=%v", pol, err == nil), fmt.Sprintf("%s: library err=%v, reference satisfiable=%v (minimum %d)", desc, err, ok, min), desc)
					}
				}
			}
		}
	}
}

func runDistributor(t *testing.T, r *rep.R) {
	r.Set("distributor_rule", "Distributor.AddChain/AddPreChain (NewDistributor + RefreshRoots, loadPendingLogs=false) with scripted log clients, one synctest bubble per case: "+
		"family filter = one variant log {8 statuses} x {8 temporal intervals around NotAfter} x {5 kinds of root knowledge} (x answers error where it can matter) placed into companion lists "+
		"{Chrome variant Google / non-Google, Apple} x {companions suffice, companions one short in total, companions lack the variant's operator class} x lifetimes x {cert, precert} x {chain with / without its root}; "+
		"family roots = every assignment of root knowledge to all 4 logs; family minimum = every lifetime around the 15/27/39 month boundaries x lists of minimum-1, minimum, minimum+1 logs in several operator splits; "+
		"family mismatch = wrong endpoint for the kind of leaf; plus the LogsByGroup table (lifetimes x 0..6 Google x 0..6 other logs)")
	r.Assume("distributor part: the policy handed to NewDistributor is the real Chrome/Apple policy wrapped by a harness policy that only fixes the session order through the public SetLogWeights API (variant log first), so that a log wrongly kept by the filter is certainly contacted",
		"distributor part: scripted logs answer 2 ms (virtual) after the request; time is virtual (testing/synctest)",
		"distributor part: a log's roots are 'known' iff its get-roots call succeeded (an empty list is known and contains no root); they are unknown when it failed or RefreshRoots was never called",
		"distributor part: 'the chain's root' is the ground-truth issuer of the intermediate (from the certificate template), whether or not the submitted chain carries it",
		"distributor part: certificate lifetime is compared with 15/27/39 months at calendar-day granularity (time of day ignored), as the Chrome table's own implementation does; NotBefore days are <= 15 so that 'k months later' is unambiguous",
		"distributor part: a leaf submitted through the endpoint of the other kind must be refused without contacting a log (API contract, not part of the statement)",
		"distributor part: when the compatible logs cannot satisfy the policy an error must be returned; that no log at all is contacted then is recorded (dist_unsatisfiable_cases_with_contact) but not demanded")
	th := r.Thorough()
	cases := dCases(th)
	r.Set("dist_cases", len(cases))
	k := &dChecker{r: r, samples: map[string]any{}}
	r.Add("dist_variant_log_listed_but_not_contacted", 0)
	done := enum.ParFor(len(cases), r.Expired, func(i int) {
		c := cases[i]
		var res dResult
		pan, msg, stack := enum.Catch(func() {
			synctest.Test(t, func(t *testing.T) { res = dExec(c) })
		})
		r.Eval(1)
		if pan {
			r.Violation("dist-panic", c.String()+": "+msg+"\n"+stack, map[string]any{"case": c})
			return
		}
		k.check(c, res)
	})
	if !done {
		r.Capped("deadline reached before all distributor cases were run")
	}
	dPolicyTable(r)
	r.Set("dist_samples", k.samples)
	r.Set("dist_log_contacts", k.contacts.Load())
	r.Set("dist_successes", k.succ.Load())
	r.Set("dist_failures", k.fail.Load())
	r.Set("dist_unsatisfiable_cases_with_contact", k.unsatHit.Load())
}
