//go:build go1.25

package c17

// The proxy keeps a distributor alive across log-list updates: a list the distributor cannot be built from is
// skipped, the distributor in use goes on serving AND goes on refreshing the logs' accepted roots. Scripted
// sequences of log-list updates (good / unusable) on a real submission.Proxy under virtual time; the logs
// start accepting a second root half an hour in; a chain under that root submitted hours later (many root
// refresh intervals) must be accepted, because every log of the distributor in use now vouches for its root.

import (
	"context"
	"errors"
	"fmt"
	"sort"
	"strings"
	"sync"
	"testing"
	"testing/synctest"
	"time"

	"verif/engine/enum"
	"verif/engine/rep"
	"verif/ref/pki"

	ct "github.com/google/certificate-transparency-go"
	"github.com/google/certificate-transparency-go/client"
	"github.com/google/certificate-transparency-go/ctpolicy"
	"github.com/google/certificate-transparency-go/loglist3"
	"github.com/google/certificate-transparency-go/submission"
)

type pxLog struct {
	url   string
	mu    *sync.Mutex
	roots *[]ct.ASN1Cert // what every log accepts right now
	asked *map[string]int
	subs  *map[string]int // submissions received, per log URL
}

func (l pxLog) AddChain(ctx context.Context, chain []ct.ASN1Cert) (*ct.SignedCertificateTimestamp, error) {
	return l.sub(ctx)
}
func (l pxLog) AddPreChain(ctx context.Context, chain []ct.ASN1Cert) (*ct.SignedCertificateTimestamp, error) {
	return l.sub(ctx)
}
func (l pxLog) sub(ctx context.Context) (*ct.SignedCertificateTimestamp, error) {
	l.mu.Lock()
	(*l.subs)[l.url]++
	l.mu.Unlock()
	select {
	case <-ctx.Done():
		return nil, ctx.Err()
	case <-time.After(2 * time.Millisecond):
	}
	return &ct.SignedCertificateTimestamp{SCTVersion: ct.V1, Timestamp: 1700000000000}, nil
}
func (l pxLog) GetAcceptedRoots(ctx context.Context) ([]ct.ASN1Cert, error) {
	l.mu.Lock()
	defer l.mu.Unlock()
	(*l.asked)[l.url]++
	return append([]ct.ASN1Cert{}, (*l.roots)...), nil
}

type pxRefresher struct {
	mu    sync.Mutex
	lists []*submission.LogListData
	n     int
}

func (r *pxRefresher) Refresh() (*submission.LogListData, error) {
	r.mu.Lock()
	defer r.mu.Unlock()
	i := r.n
	if i >= len(r.lists) {
		i = len(r.lists) - 1
	}
	r.n++
	d := *r.lists[i]
	d.DownloadTime = time.Now()
	return &d, nil
}
func (r *pxRefresher) LastJSON() []byte { return nil }
func (r *pxRefresher) Source() string   { return "scripted" }

func runProxy(t *testing.T, r *rep.R) {
	// content "std": px0..px3 usable. content "swap": px0 and px1 retired, px2..px5 usable (another edition of the list).
	mkList := func(version, content string) *submission.LogListData {
		logs := []dLog{}
		for i := 0; i < 6; i++ {
			st := "usable"
			if content == "swap" && i < 2 {
				st = "retired"
			}
			if content != "swap" && i >= 4 {
				continue
			}
			logs = append(logs, dLog{URL: fmt.Sprintf("https://px%d.example/", i), Google: i%2 == 0, Status: st, Interval: "none", Roots: "include", Answer: "sct"})
		}
		ll := dList(logs, time.Time{})
		ll.Version = version
		return &submission.LogListData{List: ll, JSON: []byte(`{"version":"` + version + `","content":"` + content + `"}`)}
	}
	leafR2 := pki.NewLeaf("c17 proxy leaf under R2", pki.LoadKey("p256-2"), dRootR2, pki.LeafOpts{NotAfter: time.Date(2024, 6, 1, 0, 0, 0, 0, time.UTC)})
	leafR := pki.NewLeaf("c17 proxy leaf under R", pki.LoadKey("p256-2"), dRootR, pki.LeafOpts{NotAfter: time.Date(2024, 6, 1, 0, 0, 0, 0, time.UTC)})
	// "swap": the other edition under a new version; "swap-samever": the other edition published without touching the
	// version field; "swap-nover" / "good-nover": editions that carry no version at all (the field is optional)
	seqs := [][]string{{"good"}, {"bad"}, {"bad", "bad"}, {"good", "bad"}, {"bad", "good"}, {"good", "good"}, {"bad", "good", "bad"}, {"good", "bad", "good"},
		{"swap"}, {"swap-samever"}, {"swap", "bad"}, {"bad", "swap-samever"}, {"swap-samever", "good"}, {"swap", "good-samever"}, {"nover:swap-nover"}, {"nover:swap-nover", "good-nover"}, {"nover:good-nover", "swap-nover", "bad"},
		// "slow:": building the distributor for that edition takes 25 minutes while further editions arrive every 10: updates queue up behind it
		{"slow:good", "swap", "good"}, {"slow:swap", "good", "swap"}, {"slow:good", "bad", "swap"}, {"slow:swap", "swap-samever", "good", "bad"}}
	for _, pol := range []submission.CTPolicyType{submission.AppleCTPolicy, submission.ChromeCTPolicy} {
		for _, sq := range seqs {
			pol, sq := pol, sq
			name := fmt.Sprintf("policy=%d updates=[%s]", pol, strings.Join(sq, ","))
			r.Eval(1)
			r.Nontrivial("proxy|" + name)
			pan, msg, stack := enum.Catch(func() {
				synctest.Test(t, func(t *testing.T) {
					var mu sync.Mutex
					roots := []ct.ASN1Cert{{Data: dRootR.DER}}
					asked := map[string]int{}
					subs := map[string]int{}
					lcb := func(l *loglist3.Log) (client.AddLogClient, error) {
						return pxLog{url: l.URL, mu: &mu, roots: &roots, asked: &asked, subs: &subs}, nil
					}
					inner := submission.GetDistributorBuilder(pol, lcb, nil)
					slow := map[string]bool{}
					db := func(ll *loglist3.LogList) (*submission.Distributor, error) {
						if slow[ll.Version] {
							time.Sleep(25 * time.Minute)
						}
						if strings.HasPrefix(ll.Version, "bad") {
							return nil, errors.New("this log list cannot be used (scripted)")
						}
						return inner(ll)
					}
					first := "good-0"
					if strings.HasPrefix(sq[0], "nover:") {
						first = ""
					}
					ref := &pxRefresher{lists: []*submission.LogListData{mkList(first, "std")}}
					final := "std" // the edition of the last usable list
					for i, k := range sq {
						k = strings.TrimPrefix(k, "nover:")
						if strings.HasPrefix(k, "slow:") {
							k = strings.TrimPrefix(k, "slow:")
							slow[fmt.Sprintf("%s-%d", k, i+1)] = true
						}
						content := "std"
						if strings.HasPrefix(k, "swap") {
							content = "swap"
						}
						version := fmt.Sprintf("%s-%d", k, i+1)
						switch {
						case strings.HasSuffix(k, "-samever"):
							version = first
						case strings.HasSuffix(k, "-nover"):
							version = ""
						}
						if k != "bad" {
							final = content
						}
						ref.lists = append(ref.lists, mkList(version, content))
					}
					ctx, cancel := context.WithCancel(context.Background())
					defer cancel()
					p := submission.NewProxy(submission.NewLogListManager(ref, nil), db, nil)
					p.Run(ctx, 10*time.Minute, time.Hour)
					<-p.Init
					viol := func(sig, f string, a ...any) {
						r.Violation(sig, name+": "+fmt.Sprintf(f, a...), map[string]any{"policy": fmt.Sprint(pol), "log_list_updates": sq})
					}
					time.Sleep(5 * time.Minute)
					if _, err := p.AddChain(ctx, [][]byte{leafR.DER, dRootR.DER}, false); err != nil {
						viol("proxy: a chain every log accepts is refused", "at +5m: %v", err)
					}
					time.Sleep(25 * time.Minute) // +30m: every log now also accepts R2
					mu.Lock()
					roots = []ct.ASN1Cert{{Data: dRootR.DER}, {Data: dRootR2.DER}}
					mu.Unlock()
					time.Sleep(4*time.Hour + 30*time.Minute) // +5h: all list updates delivered, several root refresh intervals later
					mu.Lock()
					n0 := 0
					for _, c := range asked {
						n0 += c
					}
					mu.Unlock()
					mu.Lock()
					for k := range subs {
						delete(subs, k)
					}
					mu.Unlock()
					if _, err := p.AddChain(ctx, [][]byte{leafR2.DER, dRootR2.DER}, false); err != nil {
						viol("proxy: stale root knowledge after a log-list update", "the logs have accepted root R2 for 4.5 h (root refresh interval 1 h), yet at +5h a chain under R2 is refused: %v (get-roots calls so far: %d)", err, n0)
					}
					// the list in force is the last usable one delivered (hours ago): its retired logs are not contacted, and no log outside it is
					mu.Lock()
					var wrong []string
					for u, c := range subs {
						var i int
						fmt.Sscanf(u, "https://px%d.example/", &i)
						if c > 0 && ((final == "swap" && i < 2) || (final == "std" && i >= 4)) {
							wrong = append(wrong, u)
						}
					}
					mu.Unlock()
					if len(wrong) > 0 {
						sort.Strings(wrong)
						viol("proxy: submission sent to logs the log list in force does not offer", "at +5h, with the %q edition delivered hours ago, the submission contacted %v", final, wrong)
					}
					cancel()
					synctest.Wait()
				})
			})
			if pan && !strings.Contains(msg, "blocked goroutines remain") {
				r.Violation("proxy: panic", name+": "+msg+"\n"+stack, nil)
			}
		}
	}
	_ = ctpolicy.BaseName
	runProxyParked(t, r)
}

// hangLog answers submissions only while *open is true; otherwise a submission waits until its context ends.
type hangLog struct {
	pxLog
	open *bool
}

func (l hangLog) AddChain(ctx context.Context, chain []ct.ASN1Cert) (*ct.SignedCertificateTimestamp, error) {
	return l.wait(ctx)
}
func (l hangLog) AddPreChain(ctx context.Context, chain []ct.ASN1Cert) (*ct.SignedCertificateTimestamp, error) {
	return l.wait(ctx)
}
func (l hangLog) wait(ctx context.Context) (*ct.SignedCertificateTimestamp, error) {
	l.mu.Lock()
	open := *l.open
	l.mu.Unlock()
	if !open {
		<-ctx.Done()
		return nil, ctx.Err()
	}
	return l.sub(ctx)
}

// runProxyParked: a submission is parked on logs that do not answer (its caller never cancels) while a log-list update
// arrives; a second caller, whose logs answer at once, must be served - "it always terminates, for every pattern of log
// latencies". The scenario runs in a bubble of its own; because a caller stuck on a lock keeps the bubble from ever
// coming to rest, the bubble is watched from outside (4 minutes of real time for a scenario that takes milliseconds).
func runProxyParked(t *testing.T, r *rep.R) {
	for _, pol := range []submission.CTPolicyType{submission.AppleCTPolicy, submission.ChromeCTPolicy} {
		pol := pol
		name := fmt.Sprintf("policy=%d parked submission, log-list update, second caller", pol)
		r.Eval(1)
		r.Nontrivial("proxy-parked|" + name)
		done := make(chan string, 1)
		go func() {
			res := ""
			defer func() {
				if p := recover(); p != nil && !strings.Contains(fmt.Sprint(p), "blocked goroutines remain") {
					res = "panic: " + fmt.Sprint(p)
				}
				done <- res
			}()
			synctest.Test(t, func(t *testing.T) {
				var mu sync.Mutex
				roots := []ct.ASN1Cert{{Data: dRootR.DER}}
				asked, subs := map[string]int{}, map[string]int{}
				open := false
				lcb := func(l *loglist3.Log) (client.AddLogClient, error) {
					return hangLog{pxLog{url: l.URL, mu: &mu, roots: &roots, asked: &asked, subs: &subs}, &open}, nil
				}
				mk := func(version string) *submission.LogListData {
					logs := []dLog{}
					for i := 0; i < 4; i++ {
						logs = append(logs, dLog{URL: fmt.Sprintf("https://px%d.example/", i), Google: i%2 == 0, Status: "usable", Interval: "none", Roots: "include", Answer: "sct"})
					}
					ll := dList(logs, time.Time{})
					ll.Version = version
					return &submission.LogListData{List: ll, JSON: []byte(`{"version":"` + version + `"}`)}
				}
				ref := &pxRefresher{lists: []*submission.LogListData{mk("v0"), mk("v1"), mk("v2")}}
				ctx, cancel := context.WithCancel(context.Background())
				defer cancel()
				p := submission.NewProxy(submission.NewLogListManager(ref, nil), submission.GetDistributorBuilder(pol, lcb, nil), nil)
				p.Run(ctx, 10*time.Minute, time.Hour)
				<-p.Init
				leafR := pki.NewLeaf("c17 parked leaf", pki.LoadKey("p256-2"), dRootR, pki.LeafOpts{NotAfter: time.Date(2024, 6, 1, 0, 0, 0, 0, time.UTC)})
				time.Sleep(time.Minute)
				first := make(chan error, 1)
				go func() { // caller 1: no deadline, every log it tries is silent
					_, err := p.AddChain(ctx, [][]byte{leafR.DER, dRootR.DER}, false)
					first <- err
				}()
				time.Sleep(25 * time.Minute) // two log-list updates have been delivered meanwhile
				mu.Lock()
				open = true
				mu.Unlock()
				c2, cancel2 := context.WithTimeout(ctx, time.Minute)
				defer cancel2()
				if _, err := p.AddChain(c2, [][]byte{leafR.DER, dRootR.DER}, false); err != nil {
					res = fmt.Sprintf("the second caller's logs answer at once, yet its submission fails: %v", err)
				}
				cancel()
				<-first
				synctest.Wait()
			})
		}()
		select {
		case res := <-done:
			if res != "" {
				r.Violation("proxy: a caller is not served while another caller's submission is parked on silent logs", name+": "+res, map[string]any{"policy": fmt.Sprint(pol)})
			}
		case <-time.After(4 * time.Minute):
			r.Violation("proxy: a caller never returns while another caller's submission is parked on silent logs", name+": the scenario (milliseconds of work under virtual time) did not finish in 4 minutes of real time: a caller waits for a lock that the parked submission holds", map[string]any{"policy": fmt.Sprint(pol)})
			return
		}
	}
}
