//go:build go1.25

package c17

// The proxy keeps a distributor alive across log-list updates: a list the distributor cannot be built from is
// skipped, the distributor in use goes on serving AND goes on refreshing the logs' accepted roots. Scripted
// sequences of log-list updates (good / unusable) on a real submission.Proxy under virtual time; the logs
// start accepting a second root half an hour in; a chain under that root submitted hours later (many root
// refresh intervals) must be accepted, because every log of the distributor in use now vouches for its root.

import (
	"context"
	"errors"
	"fmt"
	"sort"
	"strings"
	"sync"
	"testing"
	"testing/synctest"
	"time"

	"verif/engine/enum"
	"verif/engine/rep"
	"verif/ref/pki"

	ct "github.com/google/certificate-transparency-go"
	"github.com/google/certificate-transparency-go/client"
	"github.com/google/certificate-transparency-go/ctpolicy"
	"github.com/google/certificate-transparency-go/loglist3"
	"github.com/google/certificate-transparency-go/submission"
)

type pxLog struct {
	url   string
	mu    *sync.Mutex
	roots *[]ct.ASN1Cert // what every log accepts right now
	asked *map[string]int
	subs  *map[string]int // submissions received, per log URL
}

func (l pxLog) AddChain(ctx context.Context, chain []ct.ASN1Cert) (*ct.SignedCertificateTimestamp, error) {
	return l.sub(ctx)
}
func (l pxLog) AddPreChain(ctx context.Context, chain []ct.ASN1Cert) (*ct.SignedCertificateTimestamp, error) {
	return l.sub(ctx)
}
func (l pxLog) sub(ctx context.Context) (*ct.SignedCertificateTimestamp, error) {
	l.mu.Lock()
	(*l.subs)[l.url]++
	l.mu.Unlock()
	select {
	case <-ctx.Done():
		return nil, ctx.Err()
	case <-time.After(2 * time.Millisecond):
	}
	return &ct.SignedCertificateTimestamp{SCTVersion: ct.V1, Timestamp: 1700000000000}, nil
}
func (l pxLog) GetAcceptedRoots(ctx context.Context) ([]ct.ASN1Cert, error) {
	l.mu.Lock()
	defer l.mu.Unlock()
	(*l.asked)[l.url]++
	return append([]ct.ASN1Cert{}, (*l.roots)...), nil
}

type pxRefresher struct {
	mu    sync.Mutex
	lists []*submission.LogListData
	n     int
}

func (r *pxRefresher) Refresh() (*submission.LogListData, error) {
	r.mu.Lock()
	defer r.mu.Unlock()
	i := r.n
	if i >= len(r.lists) {
		i = len(r.lists) - 1
	}
	r.n++
	d := *r.lists[i]
	d.DownloadTime = time.Now()
	return &d, nil
}
func (r *pxRefresher) LastJSON() []byte { return nil }
func (r *pxRefresher) Source() string   { return "scripted" }

func runProxy(t *testing.T, r *rep.R) {
	// content "std": px0..px3 usable. content "swap": px0 and px1 retired, px2..px5 usable (another edition of the list).
	mkList := func(version, content string) *submission.LogListData {
		logs := []dLog{}
		for i := 0; i < 6; i++ {
			st := "usable"
			if content == "swap" && i < 2 {
				st = "retired"
			}
			if content != "swap" && i >= 4 {
				continue
			}
			logs = append(logs, dLog{URL: fmt.Sprintf("https://px%d.example/", i), Google: i%2 == 0, Status: st, Interval: "none", Roots: "include", Answer: "sct"})
		}
		ll := dList(logs, time.Time{})
		ll.Version = version
		return &submission.LogListData{List: ll, JSON: []byte(`{"version":"` + version + `","content":"` + content + `"}`)}
	}
	leafR2 := pki.NewLeaf("c17 proxy leaf under R2", pki.LoadKey("p256-2"), dRootR2, pki.LeafOpts{NotAfter: time.Date(2024, 6, 1, 0, 0, 0, 0, time.UTC)})
	leafR := pki.NewLeaf("c17 proxy leaf under R", pki.LoadKey("p256-2"), dRootR, pki.LeafOpts{NotAfter: time.Date(2024, 6, 1, 0, 0, 0, 0, time.UTC)})
	// "swap": the other edition under a new version; "swap-samever": the other edition published without touching the
	// version field; "swap-nover" / "good-nover": editions that carry no version at all (the field is optional)
	seqs := [][]string{{"good"}, {"bad"}, {"bad", "bad"}, {"good", "bad"}, {"bad", "good"}, {"good", "good"}, {"bad", "good", "bad"}, {"good", "bad", "good"},
		{"swap"}, {"swap-samever"}, {"swap", "bad"}, {"bad", "swap-samever"}, {"swap-samever", "good"}, {"swap", "good-samever"}, {"nover:swap-nover"}, {"nover:swap-nover", "good-nover"}, {"nover:good-nover", "swap-nover", "bad"},
		// "slow:": building the distributor for that edition takes 25 minutes while further editions arrive every 10: updates queue up behind it
		{"slow:good", "swap", "good"}, {"slow:swap", "good", "swap"}, {"slow:good", "bad", "swap"}, {"slow:swap", "swap-samever", "good", "bad"}}
	for _, pol := range []submission.CTPolicyType{submission.AppleCTPolicy, submission.ChromeCTPolicy} {
		for _, sq := range seqs {
			pol, sq := pol, sq
			name := fmt.Sprintf("policy=%d updates=[%s]", pol, strings.Join(sq, ","))
			r.Eval(1)
			r.Nontrivial("proxy|" + name)
			pan, msg, stack := enum.Catch(func() {
				synctest.Test(t, func(t *testing.T) {
					var mu sync.Mutex
					roots := []ct.ASN1Cert{{Data: dRootR.DER}}
					asked := map[string]int{}
					subs := map[string]int{}
					lcb := func(l *loglist3.Log) (client.AddLogClient, error) {
						return pxLog{url: l.URL, mu: &mu, roots: &roots, asked: &asked, subs: &subs}, nil
					}
					inner := submission.GetDistributorBuilder(pol, lcb, nil)
					slow := map[string]bool{}
					db := func(ll *loglist3.LogList) (*submission.Distributor, error) {
						if slow[ll.Version] {
							time.Sleep(25 * time.Minute)
						}
						if strings.HasPrefix(ll.Version, "bad") {
							return nil, errors.New("this log list cannot be used (scripted)")
						}
						return inner(ll)
					}
					first := "good-0"
					if strings.HasPrefix(sq[0], "nover:") {
						first = ""
					}
					ref := &pxRefresher{lists: []*submission.LogListData{mkList(first, "std")}}
					final := "std" // the edition of the last usable list
					for i, k := range sq {
						k = strings.TrimPrefix(k, "nover:")
						if strings.HasPrefix(k, "slow:") {
							k = strings.TrimPrefix(k, "slow:")
							slow[fmt.Sprintf("%s-%d", k, i+1)] = true
						}
						content := "std"
						if strings.HasPrefix(k, "swap") {
							content = "swap"
						}
						version := fmt.Sprintf("%s-%d", k, i+1)
						switch {
						case strings.HasSuffix(k, "-samever"):
							version = first
						case strings.HasSuffix(k, "-nover"):
							version = ""
						}
						if k != "bad" {
							final = content
						}
						ref.lists = append(ref.lists, mkList(version, content))
					}
					ctx, cancel := context.WithCancel(context.Background())
					defer cancel()
					p := submission.NewProxy(submission.NewLogListManager(ref, nil), db, nil)
					p.Run(ctx, 10*time.Minute, time.Hour)
					<-p.Init
					viol := func(sig, f string, a ...any) {
						r.Violation(sig, name+": "+fmt.Sprintf(f, a...), map[string]any{"policy": fmt.Sprint(pol), "log_list_updates": sq})
					}
					time.Sleep(5 * time.Minute)
					if _, err := p.AddChain(ctx, [][]byte{leafR.DER, dRootR.DER}, false); err != nil {
						viol("proxy: a chain every log accepts is refused", "at +5m: %v", err)
					}
					time.Sleep(25 * time.Minute) // +30m: every log now also accepts R2
					mu.Lock()
					roots = []ct.ASN1Cert{{Data: dRootR.DER}, {Data: dRootR2.DER}}
					mu.Unlock()
					time.Sleep(4*time.Hour + 30*time.Minute) // +5h: all list updates delivered, several root refresh intervals later
					mu.Lock()
					n0 := 0
					for _, c := range asked {
						n0 += c
					}
					mu.Unlock()
					mu.Lock()
					for k := range subs {
						delete(subs, k)
					}
					mu.Unlock()
					if _, err := p.AddChain(ctx, [][]byte{leafR2.DER, dRootR2.DER}, false); err != nil {
						viol("proxy: stale root knowledge after a log-list update", "the logs have accepted root R2 for 4.5 h (root refresh interval 1 h), yet at +5h a chain under R2 is refused: %v (get-roots calls so far: %d)", err, n0)
					}
					// the list in force is the last usable one delivered (hours ago): its retired logs are not contacted, and no log outside it is
					mu.Lock()
					var wrong []string
					for u, c := range subs {
						var i int
						fmt.Sscanf(u, "https://px%d.example/", &i)
						if c > 0 && ((final == "swap" && i < 2) || (final == "std" && i >= 4)) {
							wrong = append(wrong, u)
						}
					}
					mu.Unlock()
					if len(wrong) > 0 {
						sort.Strings(wrong)
						viol("proxy: submission sent to logs the log list in force does not offer", "at +5h, with the %q edition delivered hours ago, the submission contacted %v", final, wrong)
					}
					cancel()
					synctest.Wait()
				})
			})
			if pan && !strings.Contains(msg, "blocked goroutines remain") {
				r.Violation("proxy: panic", name+": "+msg+"\n"+stack, nil)
			}
		}
	}
	_ = ctpolicy.BaseName
}
