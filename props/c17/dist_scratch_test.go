//go:build go1.25

package c17

import (
	"io"
	"testing"

	"verif/engine/rep"

	"k8s.io/klog/v2"
)

func TestDist(t *testing.T) {
	klog.LogToStderr(false)
	klog.SetOutput(io.Discard)
	r := rep.New("C17X", "exploration")
	runDistributor(t, r)
	r.Finish()
}
