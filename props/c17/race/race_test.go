//go:build go1.25

// Engine D for C17: concurrent submissions, weight changes, root refreshes and
// log-list refreshes run free under the race detector (the statement demands
// freedom from data races; the cooperative exploration cannot see them).
package race

import (
	"context"
	"crypto/sha256"
	"fmt"
	"io"
	"os"
	"sync"
	"testing"
	"time"

	"verif/ref/pki"

	ct "github.com/google/certificate-transparency-go"
	"github.com/google/certificate-transparency-go/client"
	"github.com/google/certificate-transparency-go/ctpolicy"
	"github.com/google/certificate-transparency-go/loglist3"
	"github.com/google/certificate-transparency-go/submission"
	"github.com/google/certificate-transparency-go/x509"
	"k8s.io/klog/v2"
)

var (
	root  = pki.NewRoot("C17R Root", pki.LoadKey("p256-0"))
	leaf  = pki.NewLeaf("c17r", pki.LoadKey("p256-2"), root, pki.LeafOpts{NotAfter: pki.T0.AddDate(1, 0, 0)})
	chain = [][]byte{leaf.DER, root.DER}
)

func list(n int) *loglist3.LogList {
	goog := &loglist3.Operator{Name: "Google", Email: []string{"google-ct-logs@googlegroups.com"}}
	oth := &loglist3.Operator{Name: "Other", Email: []string{"x@other.example"}}
	for i := 0; i < n; i++ {
		for _, op := range []*loglist3.Operator{goog, oth} {
			op.Logs = append(op.Logs, &loglist3.Log{URL: fmt.Sprintf("https://%s%d.example/", op.Name, i), State: &loglist3.LogStates{Usable: &loglist3.LogState{}}})
		}
	}
	return &loglist3.LogList{Operators: []*loglist3.Operator{goog, oth}}
}

type lc struct{ url string }

func (l lc) sct() *ct.SignedCertificateTimestamp {
	return &ct.SignedCertificateTimestamp{LogID: ct.LogID{KeyID: sha256.Sum256([]byte(l.url))}}
}
func (l lc) AddChain(ctx context.Context, _ []ct.ASN1Cert) (*ct.SignedCertificateTimestamp, error) {
	return l.sct(), nil
}
func (l lc) AddPreChain(ctx context.Context, _ []ct.ASN1Cert) (*ct.SignedCertificateTimestamp, error) {
	return l.sct(), nil
}
func (l lc) GetAcceptedRoots(ctx context.Context) ([]ct.ASN1Cert, error) {
	return []ct.ASN1Cert{{Data: root.DER}}, nil
}

func builder(l *loglist3.Log) (client.AddLogClient, error) { return lc{l.URL}, nil }

// noRoots is a log whose get-roots call fails: the distributor's root data stays incomplete, and chains it cannot
// verify take the fallback path.
type noRoots struct{ lc }

func (noRoots) GetAcceptedRoots(ctx context.Context) ([]ct.ASN1Cert, error) {
	return nil, fmt.Errorf("get-roots unavailable")
}

func builderNoRoots(l *loglist3.Log) (client.AddLogClient, error) {
	if l.URL == "https://Other0.example/" {
		return noRoots{lc{l.URL}}, nil
	}
	return lc{l.URL}, nil
}

var (
	strayRoot  = pki.NewRoot("C17R unknown root", pki.LoadKey("p256-4"))
	strayLeaf  = pki.NewLeaf("c17r-stray", pki.LoadKey("p256-2"), strayRoot, pki.LeafOpts{NotAfter: pki.T0.AddDate(1, 0, 0)})
	strayChain = [][]byte{strayLeaf.DER, strayRoot.DER}
)

type refresher struct {
	mu sync.Mutex
	n  int
}

func (r *refresher) Refresh() (*submission.LogListData, error) {
	r.mu.Lock()
	defer r.mu.Unlock()
	r.n++
	return &submission.LogListData{List: list(2 + r.n%2), JSON: []byte("{}"), DownloadTime: time.Now()}, nil
}
func (r *refresher) LastJSON() []byte { return []byte("{}") }
func (r *refresher) Source() string   { return "stub" }

type sub struct{}

func (sub) SubmitToLog(ctx context.Context, u string, _ []ct.ASN1Cert, _ bool) (*ct.SignedCertificateTimestamp, error) {
	return lc{u}.sct(), nil
}

func TestRacePass(t *testing.T) {
	klog.LogToStderr(false)
	klog.SetOutput(io.Discard)
	cert, err := x509.ParseCertificate(leaf.DER)
	if err != nil {
		t.Fatal(err)
	}
	runs := 0
	for it := 0; it < 60; it++ {
		func() {
			ctx, cancel := context.WithCancel(context.Background())
			var wg sync.WaitGroup
			// (1) distributor: submissions x root refreshes
			d, err := submission.NewDistributor(list(2), ctpolicy.ChromeCTPolicy{}, builder, nil)
			if err != nil {
				t.Fatal(err)
			}
			d.RefreshRoots(ctx)
			for c := 0; c < 3; c++ {
				wg.Add(1)
				go func() {
					defer wg.Done()
					for k := 0; k < 3; k++ {
						d.AddChain(ctx, chain, k%2 == 0)
					}
				}()
			}
			wg.Add(1)
			go func() {
				defer wg.Done()
				for k := 0; k < 3; k++ {
					d.RefreshRoots(ctx)
				}
			}()
			// (1b) a distributor with incomplete root data: submissions of a chain under a root no log vouches for (the
			// fallback path) x root refreshes. The statement promises that every submission terminates.
			d2, err := submission.NewDistributor(list(2), ctpolicy.ChromeCTPolicy{}, builderNoRoots, nil)
			if err != nil {
				t.Fatal(err)
			}
			d2.RefreshRoots(ctx)
			for c := 0; c < 2; c++ {
				wg.Add(1)
				go func() {
					defer wg.Done()
					for k := 0; k < 6; k++ {
						sctx, scancel := context.WithTimeout(ctx, time.Second)
						d2.AddChain(sctx, strayChain, false)
						scancel()
					}
				}()
			}
			for c := 0; c < 3; c++ {
				wg.Add(1)
				go func() {
					defer wg.Done()
					for k := 0; k < 8; k++ {
						d2.RefreshRoots(ctx)
					}
				}()
			}
			// (2) one policy data object: submissions x weight changes
			groups, err := ctpolicy.ChromeCTPolicy{}.LogsByGroup(cert, list(2))
			if err != nil {
				t.Fatal(err)
			}
			for c := 0; c < 2; c++ {
				wg.Add(1)
				go func() {
					defer wg.Done()
					for k := 0; k < 3; k++ {
						submission.GetSCTs(ctx, sub{}, []ct.ASN1Cert{{Data: leaf.DER}}, false, groups)
					}
				}()
			}
			wg.Add(1)
			go func() {
				defer wg.Done()
				g := groups[ctpolicy.BaseName]
				for k := 0; k < 6; k++ {
					g.SetLogWeight("https://Google0.example/", float32(k+1))
					g.SetLogWeights(map[string]float32{"https://Google0.example/": 1, "https://Other0.example/": 2, "https://Other1.example/": float32(k), "https://Google1.example/": 1})
				}
			}()
			// (3) proxy: submissions x log-list refreshes
			llm := submission.NewLogListManager(&refresher{}, nil)
			p := submission.NewProxy(llm, submission.GetDistributorBuilder(submission.ChromeCTPolicy, builder, nil), nil)
			p.Run(ctx, 5*time.Millisecond, 7*time.Millisecond)
			<-p.Init
			for c := 0; c < 2; c++ {
				wg.Add(1)
				go func() {
					defer wg.Done()
					for k := 0; k < 4; k++ {
						p.AddChain(ctx, chain, false)
						time.Sleep(4 * time.Millisecond)
					}
				}()
			}
			done := make(chan struct{})
			go func() { wg.Wait(); close(done) }()
			select {
			case <-done:
			case <-time.After(4 * time.Minute):
				// every operation above takes milliseconds and every submission has a deadline of at most a second
				fmt.Printf("RACE-PASS STUCK after %d runs: submissions / refreshes of the free-running pass have not returned for 4 minutes (a deadlock: deadlines cannot free a goroutine that waits for a lock)\n", runs)
				os.Exit(7)
			}
			cancel()
			time.Sleep(20 * time.Millisecond)
		}()
		runs++
	}
	fmt.Printf("RACE-PASS runs=%d\n", runs)
}
