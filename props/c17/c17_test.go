//go:build go1.25

//go:debug randseednop=0

// C17 — multi-log submission returns a policy-satisfying SCT set or says it did not.
//
// Engine A: submission.GetSCTs with a gated Submitter. Scenario = (policy, log
// list, certificate lifetime, forced session order of every group, fixed outcome
// of every log: SCT / error / hang). The director decides in which order and how
// late the pending per-log submissions are answered and when the caller cancels.
package c17

import (
	"context"
	"crypto/sha256"
	"errors"
	"fmt"
	"io"
	"math/rand"
	"sort"
	"strings"
	"sync"
	"sync/atomic"
	"testing"
	"testing/synctest"
	"time"

	"verif/engine/enum"
	"verif/engine/gate"
	"verif/engine/rep"
	"verif/ref/pki"

	ct "github.com/google/certificate-transparency-go"
	"github.com/google/certificate-transparency-go/ctpolicy"
	"github.com/google/certificate-transparency-go/loglist3"
	"github.com/google/certificate-transparency-go/submission"
	"github.com/google/certificate-transparency-go/x509"
	"k8s.io/klog/v2"
)

// ---- log lists and certificates ----------------------------------------------------

type logDef struct {
	URL    string
	Google bool
}

func mkList(logs []logDef) *loglist3.LogList {
	goog := &loglist3.Operator{Name: "Google", Email: []string{"google-ct-logs@googlegroups.com"}}
	oth := &loglist3.Operator{Name: "Other", Email: []string{"ct@other.example"}}
	for _, l := range logs {
		lg := &loglist3.Log{URL: l.URL, Description: l.URL}
		if l.Google {
			goog.Logs = append(goog.Logs, lg)
		} else {
			oth.Logs = append(oth.Logs, lg)
		}
	}
	ll := &loglist3.LogList{}
	if len(goog.Logs) > 0 {
		ll.Operators = append(ll.Operators, goog)
	}
	if len(oth.Logs) > 0 {
		ll.Operators = append(ll.Operators, oth)
	}
	return ll
}

var certs = map[int]*x509.Certificate{} // base minimum -> certificate with such a lifetime

func init() {
	root := pki.NewRoot("C17 Root", pki.LoadKey("p256-0"))
	for min, months := range map[int]int{2: 12, 3: 24} {
		t := pki.Tmpl{Serial: []byte{byte(min)}, Issuer: root.T.Subject, Subject: pki.CN(fmt.Sprintf("leaf%d", min)),
			NotBefore: pki.T0, NotAfter: pki.T0.AddDate(0, months, 0), Key: pki.LoadKey("p256-2"), Exts: []pki.Ext{pki.ExtSAN("x.example")}}
		c, err := x509.ParseCertificate(pki.Build(t, root.T.Key).DER)
		if err != nil {
			panic(err)
		}
		certs[min] = c
	}
}

// ---- scenario -----------------------------------------------------------------------

type scenario struct {
	Policy   string // "chrome" or "apple"
	Logs     []logDef
	BaseMin  int                 // 2 or 3 (through the certificate lifetime)
	Sessions map[string][]string // group name -> forced session order
	Outcome  map[string]string   // url -> "sct" | "err" | "hang"
	Cancel   bool                // the caller may cancel
	Bound    int
}

func (s scenario) String() string {
	var o []string
	for _, l := range s.Logs {
		o = append(o, l.URL+"="+s.Outcome[l.URL])
	}
	var ss []string
	for _, g := range []string{"Google-operated", "Non-Google-operated", ctpolicy.BaseName} {
		if v, ok := s.Sessions[g]; ok {
			ss = append(ss, g[:1]+":"+strings.Join(v, ">"))
		}
	}
	return fmt.Sprintf("%s min=%d %s sessions[%s] cancel=%v", s.Policy, s.BaseMin, strings.Join(o, ","), strings.Join(ss, " "), s.Cancel)
}

// groupsFor builds the real policy groups and forces every group's session order
// through the public weight API (weights 1e32, 1e24, ...: a wrong pick needs
// rand.Float32() < ~1e-8).
func groupsFor(sc scenario) (ctpolicy.LogPolicyData, error) {
	var pol ctpolicy.CTPolicy = ctpolicy.ChromeCTPolicy{}
	if sc.Policy == "apple" {
		pol = ctpolicy.AppleCTPolicy{}
	}
	groups, err := pol.LogsByGroup(certs[sc.BaseMin], mkList(sc.Logs))
	if err != nil {
		return nil, err
	}
	for name, order := range sc.Sessions {
		g := groups[name]
		if g == nil {
			return nil, fmt.Errorf("no group %q", name)
		}
		w := map[string]float32{}
		cur := float32(1e32)
		for _, u := range order {
			w[u] = cur
			cur /= 1e8
		}
		if err := g.SetLogWeights(w); err != nil {
			return nil, err
		}
	}
	return groups, nil
}

type gatedSubmitter struct {
	env   *gate.Env
	mu    sync.Mutex
	calls map[string]int
	scts  map[string]*ct.SignedCertificateTimestamp
	asked []string
}

func (g *gatedSubmitter) SubmitToLog(ctx context.Context, logURL string, chain []ct.ASN1Cert, asPreChain bool) (*ct.SignedCertificateTimestamp, error) {
	g.mu.Lock()
	g.calls[logURL]++
	g.asked = append(g.asked, fmt.Sprintf("%v %s", gate.Now(), logURL))
	g.mu.Unlock()
	v, err := g.env.AskCtx(ctx, "Submit("+logURL+")", "submit", logURL)
	if err != nil {
		return nil, err
	}
	if _, ok := v.(gate.Aborted); ok {
		return nil, errors.New("harness shut down")
	}
	if v.(string) == "err" {
		return nil, errors.New("log says no")
	}
	if v.(string) == "nilnil" {
		return nil, nil // a misbehaving client: neither an SCT nor an error
	}
	sct := &ct.SignedCertificateTimestamp{SCTVersion: ct.V1, LogID: ct.LogID{KeyID: sha256.Sum256([]byte(logURL))}, Timestamp: 42}
	g.mu.Lock()
	g.scts[logURL] = sct
	g.mu.Unlock()
	return sct, nil
}

func runScenario(sc scenario) func(t *testing.T, x *gate.Exec) {
	return func(t *testing.T, x *gate.Exec) {
		groups, err := groupsFor(sc)
		if err != nil {
			x.Violation("harness", "groups: %v", err)
			return
		}
		// verify that the forced order took
		for name, want := range sc.Sessions {
			got := groups[name].GetSubmissionSession()
			if strings.Join(got, ",") != strings.Join(want, ",") {
				x.Violation("harness-session-not-forced", "%s: %v != %v", name, got, want)
				return
			}
		}
		// a weight update that is refused (one weight negative) leaves the group as it was: same session, same logs
		for name, want := range sc.Sessions {
			bad := map[string]float32{}
			for i, u := range want {
				bad[u] = float32(len(want) - i)
			}
			bad[want[len(want)-1]] = -1
			if err := groups[name].SetLogWeights(bad); err == nil {
				x.Violation("negative-log-weight-accepted", "%v: group %s accepted weights %v", sc, name, bad)
				return
			}
			// (only membership is demanded: a log that drops out of the session can no longer be asked, which is
			// what breaks "enough compatible logs answer => success"; the order is re-forced below)
			got := append([]string{}, groups[name].GetSubmissionSession()...)
			ws := append([]string{}, want...)
			sort.Strings(got)
			sort.Strings(ws)
			if strings.Join(got, ",") != strings.Join(ws, ",") {
				x.Violation("refused-weight-update-drops-logs-from-the-group", "%v: group %s: session %v before, %v after a refused SetLogWeights(%v)", sc, name, want, groups[name].GetSubmissionSession(), bad)
				return
			}
			w := map[string]float32{}
			cur := float32(1e32)
			for _, u := range want {
				w[u] = cur
				cur /= 1e8
			}
			if err := groups[name].SetLogWeights(w); err != nil {
				x.Violation("harness", "re-forcing the session: %v", err)
				return
			}
		}
		env := gate.NewEnv()
		sub := &gatedSubmitter{env: env, calls: map[string]int{}, scts: map[string]*ct.SignedCertificateTimestamp{}}
		ctx, cancel := context.WithCancel(context.Background())
		defer cancel()
		var mu sync.Mutex
		finished := false
		var res []*submission.AssignedSCT
		var resErr error
		var retAt time.Duration
		nilled := map[string]bool{} // logs whose client answered (nil, nil)
		go func() {
			r, e := submission.GetSCTs(ctx, sub, []ct.ASN1Cert{{Data: certs[sc.BaseMin].Raw}}, false, groups)
			mu.Lock()
			res, resErr, finished, retAt = r, e, true, gate.Now()
			mu.Unlock()
			env.Notify()
		}()
		isFinished := func() bool { mu.Lock(); defer mu.Unlock(); return finished }
		cancelled := false
		var cancelAt time.Duration
		forcedCancel := false
		idleStuck := false
		for steps := 0; ; steps++ {
			synctest.Wait()
			if isFinished() {
				break
			}
			if steps > 100 {
				x.Violation("horizon", "%v did not finish within 100 decision points", sc)
				break
			}
			pend := env.Pending()
			type act struct {
				alt gate.Alt
				do  func()
			}
			var acts []act
			add := func(l string, c int, f func()) { acts = append(acts, act{gate.Alt{Label: l, Cost: c}, f}) }
			n := 0
			for _, p := range pend {
				u := p.Info.(string)
				o := sc.Outcome[u]
				if o == "hang" {
					continue
				}
				c := 0
				if n > 0 {
					c = 1
				}
				n++
				add(p.Key+" <- "+o, c, func() { env.Answer(p, o) })
				if o == "sct" {
					// the client hands back neither an SCT nor an error: that is not an SCT
					add(p.Key+" <- (nil, nil)", c+1, func() { nilled[u] = true; env.Answer(p, "nilnil") })
				}
			}
			if n > 0 {
				add("logs slow 1.5s", 1, func() { time.Sleep(1500 * time.Millisecond) })
			} else {
				add("tick", 0, func() {
					if !env.WaitActivity(600*time.Second, 0) && !cancelled {
						if len(pend) == 0 {
							idleStuck = true // no submission is outstanding, none was started for 600 s, and the call has not returned
						}
						// nothing can happen any more (only hung submissions are outstanding):
						// the caller gives up
						forcedCancel = true
						cancelled = true
						cancelAt = gate.Now()
						cancel()
					}
				})
			}
			if sc.Cancel && !cancelled {
				add("caller cancels", 1, func() { cancelled = true; cancelAt = gate.Now(); cancel() })
			}
			alts := make([]gate.Alt, len(acts))
			for i := range acts {
				alts[i] = acts[i].alt
			}
			acts[x.Choose(alts)].do()
		}
		cancel()
		env.Shutdown()
		synctest.Wait()
		// ---- oracle
		if !isFinished() {
			x.Violation("no-termination", "%v: GetSCTs did not return", sc)
			return
		}
		sub.mu.Lock()
		defer sub.mu.Unlock()
		for u, c := range sub.calls {
			if c > 1 {
				x.Violation("log-asked-twice", "%v: %s received the chain %d times", sc, u, c)
			}
		}
		seen := map[string]bool{}
		var urls []string
		for _, a := range res {
			if a == nil || a.SCT == nil {
				x.Violation("nil-sct-returned", "%v", sc)
				continue
			}
			if seen[a.LogURL] {
				x.Violation("duplicate-log-in-result", "%v: %s twice", sc, a.LogURL)
			}
			seen[a.LogURL] = true
			urls = append(urls, a.LogURL)
			if sub.scts[a.LogURL] != a.SCT {
				x.Violation("foreign-sct", "%v: SCT attributed to %s is not the one that log issued", sc, a.LogURL)
			}
		}
		sort.Strings(urls)
		sat := func(set map[string]bool) bool {
			g, n, all := 0, 0, 0
			for _, l := range sc.Logs {
				if set[l.URL] {
					all++
					if l.Google {
						g++
					} else {
						n++
					}
				}
			}
			if sc.Policy == "chrome" {
				return g >= 1 && n >= 1 && all >= sc.BaseMin
			}
			return all >= sc.BaseMin
		}
		if resErr == nil && !sat(seen) {
			x.Violation("success-without-policy", "%v: reported success with SCTs from %v", sc, urls)
		}
		willing := map[string]bool{}
		inSession := map[string]bool{}
		for _, order := range sc.Sessions {
			for _, u := range order {
				inSession[u] = true
			}
		}
		for u, o := range sc.Outcome {
			if o == "sct" && !nilled[u] && inSession[u] {
				willing[u] = true // (a log weighted out of every group is never asked)
			}
		}
		callerCancelled := cancelled && !forcedCancel
		if !callerCancelled && sat(willing) && resErr != nil {
			x.Violation("failure-despite-enough-logs", "%v: enough logs answer with an SCT and the caller did not cancel, yet: %v (returned SCTs from %v; submissions: %v)", sc, resErr, urls, sub.asked)
		}
		if idleStuck {
			x.Violation("waits-although-no-submission-is-outstanding", "%v: every submission that was started has been answered, no further one was started for 600 s, and GetSCTs only returned when the caller gave up (submissions: %v)", sc, sub.asked)
		}
		if forcedCancel && sat(willing) {
			x.Violation("stuck-despite-enough-logs", "%v: enough logs answer with an SCT, but the call only ended when the caller gave up after 600 s without activity (submissions: %v)", sc, sub.asked)
		}
		if cancelled && retAt > cancelAt {
			x.Violation("late-after-cancel", "%v: cancelled at %v, returned at %v", sc, cancelAt, retAt)
		}
		x.Outcome = fmt.Sprintf("scts=%s err=%v cancelled=%v", strings.Join(urls, ","), resErr != nil, cancelled)
	}
}

// ---- scenario enumeration ----------------------------------------------------------

func perms(xs []string) [][]string {
	if len(xs) <= 1 {
		return [][]string{append([]string{}, xs...)}
	}
	var out [][]string
	for i := range xs {
		rest := append(append([]string{}, xs[:i]...), xs[i+1:]...)
		for _, p := range perms(rest) {
			out = append(out, append([]string{xs[i]}, p...))
		}
	}
	return out
}

// instants returns the virtual instant at which each log of a session is tried.
func instants(session []string, parallelStart int) map[string]int {
	m := map[string]int{}
	for i, u := range session {
		if i < parallelStart {
			m[u] = 0
		} else {
			m[u] = i + 1 - parallelStart
		}
	}
	return m
}

func scenarios(th bool) (out []scenario, ties int) {
	type family struct {
		policy string
		logs   []logDef
		mins   []int
	}
	fams := []family{
		{"chrome", []logDef{{"g1", true}, {"g2", true}, {"n1", false}, {"n2", false}}, []int{2, 3}},
		{"chrome", []logDef{{"g1", true}, {"n1", false}, {"n2", false}}, []int{2, 3}},
		{"apple", []logDef{{"a1", false}, {"a2", false}, {"a3", true}}, []int{2, 3}},
	}
	for _, f := range fams {
		var gs, ns, all []string
		for _, l := range f.logs {
			all = append(all, l.URL)
			if l.Google {
				gs = append(gs, l.URL)
			} else {
				ns = append(ns, l.URL)
			}
		}
		for _, min := range f.mins {
			// every outcome assignment
			dims := make([]int, len(all))
			for i := range dims {
				dims[i] = 3
			}
			var sessSets []map[string][]string
			if f.policy == "chrome" {
				pBase := min - 2
				if pBase < 0 {
					pBase = 0
				}
				for _, pg := range perms(gs) {
					for _, pn := range perms(ns) {
						for _, pb := range perms(all) {
							ig, in, ib := instants(pg, 1), instants(pn, 1), instants(pb, pBase)
							tie := false
							for _, u := range all {
								if t, ok := ig[u]; ok && t == ib[u] {
									tie = true
								}
								if t, ok := in[u]; ok && t == ib[u] {
									tie = true
								}
							}
							if tie {
								ties++
								continue
							}
							sessSets = append(sessSets, map[string][]string{"Google-operated": pg, "Non-Google-operated": pn, ctpolicy.BaseName: pb})
						}
					}
				}
			} else {
				for _, pb := range perms(all) {
					sessSets = append(sessSets, map[string][]string{ctpolicy.BaseName: pb})
				}
			}
			for oi := 0; oi < enum.Size(dims); oi++ {
				idx := enum.Decode(oi, dims, nil)
				oc := map[string]string{}
				hangs := 0
				for i, u := range all {
					oc[u] = []string{"sct", "err", "hang"}[idx[i]]
					if idx[i] == 2 {
						hangs++
					}
				}
				_ = hangs
				for _, ss := range sessSets {
					out = append(out, scenario{Policy: f.policy, Logs: f.logs, BaseMin: min, Sessions: ss, Outcome: oc, Cancel: true, Bound: 1})
				}
				// one log weighted out of every group it belongs to (weight 0 through the public API): it is never asked,
				// and the groups it leaves short-handed still come to an end
				for wi, wo := range all {
					if wi > 1 && !th {
						break
					}
					drop := func(xs []string) []string {
						var o []string
						for _, u := range xs {
							if u != wo {
								o = append(o, u)
							}
						}
						return o
					}
					kept := 0
					for _, ss := range sessSets {
						red := map[string][]string{}
						empty := false
						for name, order := range ss {
							red[name] = drop(order)
							if len(red[name]) == 0 {
								empty = true
							}
						}
						if empty || len(red[ctpolicy.BaseName]) < min {
							break // (the weight API refuses to leave a group with fewer weighted logs than it must include)
						}
						// ties between group races are excluded for the full orders; re-check the reduced ones
						tie := false
						if f.policy == "chrome" {
							pBase := min - 2
							if pBase < 0 {
								pBase = 0
							}
							ig, in, ib := instants(red["Google-operated"], 1), instants(red["Non-Google-operated"], 1), instants(red[ctpolicy.BaseName], pBase)
							for _, u := range all {
								if t, ok := ig[u]; ok && t == ib[u] {
									tie = true
								}
								if t, ok := in[u]; ok && t == ib[u] {
									tie = true
								}
							}
						}
						if tie {
							continue
						}
						out = append(out, scenario{Policy: f.policy, Logs: f.logs, BaseMin: min, Sessions: red, Outcome: oc, Cancel: true, Bound: 1})
						kept++
						if kept >= 2 {
							break
						}
					}
				}
			}
		}
	}
	return
}

func TestCheck(t *testing.T) {
	r := rep.New("C17", "exploration")
	gate.ReportHangs(r)
	seed := r.Seed()
	if seed == 0 {
		seed = 1
	}
	rand.Seed(seed)
	klog.LogToStderr(false)
	klog.SetOutput(io.Discard)
	scs, ties := scenarios(r.Thorough())
	if r.Thorough() {
		for i := range scs {
			scs[i].Bound = 2
		}
	}
	r.Rule("scenario = policy (Chrome 2+2 and 1+2 logs, Apple 3 logs) x base minimum 2/3 (via certificate lifetime) x every forced session order of every group without same-instant ties x every per-log outcome in {SCT, error, hang}; per scenario every choice vector within the deviation bound over: which pending submission is answered next (an SCT answer may also come back as (nil, nil) from a misbehaving client), logs answering 1.5 s late, caller cancellation at any point. distinct_nontrivial = distinct (scenario, returned SCT set, error, cancelled) outcomes")
	r.Assume("session orders are forced through the public SetLogWeights API (weights 1e32, 1e24, ...); a wrong pick needs rand.Float32() < 1e-8 and is detected",
		"session combinations in which two group races try the same log at the same virtual instant are excluded: the winner of such a tie is decided by the Go scheduler between two gate-free steps, which this engine does not enumerate",
		"a hanging log blocks until its context is cancelled; when only hung submissions remain for 600 s the caller gives up")
	r.Set("scenarios", len(scs))
	r.Set("tie_session_combinations_excluded", ties)
	var exec, pts, div, maxDepth atomic.Int64
	done := enum.ParFor(len(scs), r.Expired, func(i int) {
		sc := scs[i]
		ex := &gate.Explorer{Name: sc.String(), Bound: sc.Bound, Run: runScenario(sc), Stop: r.Expired, Workers: 1}
		ex.OnViolation = func(v gate.Violation, picks []gate.Pick, trace []string) {
			r.Violation(v.Sig, v.Desc, map[string]any{"scenario": sc, "choices": picks, "trace": trace})
		}
		ex.Explore(t)
		exec.Add(ex.Executions.Load())
		pts.Add(ex.Points.Load())
		div.Add(ex.Divergent.Load())
		for {
			d, m := ex.MaxDepth.Load(), maxDepth.Load()
			if d <= m || maxDepth.CompareAndSwap(m, d) {
				break
			}
		}
		r.Eval(int(ex.Executions.Load()))
		for _, o := range ex.OutcomeList(1 << 30) {
			r.Nontrivial(sc.String() + o[:strings.LastIndex(o, " x")])
		}
		if i%997 == 5 && r.WantSample() {
			r.Sample(map[string]any{"scenario": sc.String(), "schedules": ex.Executions.Load(), "outcomes": ex.OutcomeList(5), "trace": ex.SampleTrace()})
		}
	})
	if !done {
		r.Capped("deadline reached before all scenarios were explored")
	}
	if div.Load() > 0 {
		r.Capped(fmt.Sprintf("%d divergent branches not explored", div.Load()))
	}
	r.Set("schedules", exec.Load())
	r.Set("decision_points", pts.Load())
	r.Set("max_depth", maxDepth.Load())
	r.Set("divergent_branches", div.Load())
	runDistributor(t, r)
	runProxy(t, r)
	r.Finish()
}
