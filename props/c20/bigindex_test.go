//go:build go1.25

package c20

// One-shot migrations of explicit index ranges far up a huge source log (around 2^31, 2^32, 2^53, 2^62): every leaf is
// submitted under its own index, with the source's bytes for that index and the configured identity hash of THAT index
// (SHA-256 of the 8-byte little-endian index, or of the certificate). The source is a plain scripted transport (no
// gates: nothing is scheduled here), the destination a recording stub.

import (
	"bytes"
	"context"
	"crypto/sha256"
	"encoding/base64"
	"encoding/binary"
	"encoding/json"
	"fmt"
	"io"
	"net/http"
	"strconv"
	"strings"
	"sync"
	"testing"
	"testing/synctest"
	"time"

	"verif/engine/rep"
	"verif/ref/ct6962"

	"github.com/google/certificate-transparency-go/client"
	"github.com/google/certificate-transparency-go/jsonclient"
	"github.com/google/certificate-transparency-go/trillian/migrillian/configpb"
	"github.com/google/certificate-transparency-go/trillian/migrillian/core"
	"github.com/google/trillian"
	"github.com/google/trillian/monitoring"
	"github.com/google/trillian/types"
	"google.golang.org/grpc"
)

type hugeRT struct{ size uint64 }

func (h hugeRT) RoundTrip(req *http.Request) (*http.Response, error) {
	mk := func(st int, body []byte) (*http.Response, error) {
		return &http.Response{StatusCode: st, Status: fmt.Sprintf("%d %s", st, http.StatusText(st)), Header: http.Header{}, Body: io.NopCloser(bytes.NewReader(body)), Request: req}, nil
	}
	q := req.URL.Query()
	switch req.URL.Path[strings.LastIndex(req.URL.Path, "/")+1:] {
	case "get-sth":
		root := sha256.Sum256([]byte(fmt.Sprint("huge tree ", h.size)))
		ts := uint64(1700000000000)
		in, err := ct6962.AppendSTHSignatureInput(nil, 0, ts, h.size, root)
		if err != nil {
			panic(err)
		}
		sig := srcKey.SignTBS(in)
		ds := append([]byte{4, 3, byte(len(sig) >> 8), byte(len(sig))}, sig...)
		return mk(200, []byte(fmt.Sprintf(`{"tree_size":%d,"timestamp":%d,"sha256_root_hash":%q,"tree_head_signature":%q}`, h.size, ts,
			base64.StdEncoding.EncodeToString(root[:]), base64.StdEncoding.EncodeToString(ds))))
	case "get-entries":
		start, _ := strconv.ParseInt(q.Get("start"), 10, 64)
		end, _ := strconv.ParseInt(q.Get("end"), 10, 64)
		type le struct {
			LeafInput []byte `json:"leaf_input"`
			ExtraData []byte `json:"extra_data"`
		}
		var out []le
		for i := start; i <= end && uint64(i) < h.size && len(out) < 4; i++ {
			e := hugeEntry(i)
			out = append(out, le{e.leafInput, e.extraData})
		}
		b, _ := json.Marshal(map[string]any{"entries": out})
		return mk(200, b)
	}
	return mk(404, []byte("no such endpoint"))
}

// hugeEntry: the entry the huge source log holds at index i (the eight fixture entries, repeated).
func hugeEntry(i int64) entry { return entries[int(uint64(i)%uint64(len(entries)))] }

type recDest struct {
	trillian.TrillianLogClient
	mu   sync.Mutex
	adds []*trillian.LogLeaf
}

func (d *recDest) GetLatestSignedLogRoot(ctx context.Context, in *trillian.GetLatestSignedLogRootRequest, _ ...grpc.CallOption) (*trillian.GetLatestSignedLogRootResponse, error) {
	empty := sha256.Sum256(nil)
	b, err := (&types.LogRootV1{TreeSize: 0, RootHash: empty[:], TimestampNanos: 1}).MarshalBinary()
	if err != nil {
		return nil, err
	}
	return &trillian.GetLatestSignedLogRootResponse{SignedLogRoot: &trillian.SignedLogRoot{LogRoot: b}}, nil
}

func (d *recDest) AddSequencedLeaves(ctx context.Context, in *trillian.AddSequencedLeavesRequest, _ ...grpc.CallOption) (*trillian.AddSequencedLeavesResponse, error) {
	d.mu.Lock()
	defer d.mu.Unlock()
	rsp := &trillian.AddSequencedLeavesResponse{}
	for _, l := range in.Leaves {
		d.adds = append(d.adds, l)
		rsp.Results = append(rsp.Results, &trillian.QueuedLogLeaf{Leaf: l})
	}
	return rsp, nil
}

// hugeSize: a few entries beyond the range, but a size a signed 64-bit index can still address
func hugeSize(end int64) uint64 {
	if end > 1<<63-1-5 {
		return 1<<63 - 1
	}
	return uint64(end) + 5
}

func bigIndices(t *testing.T, r *rep.R) {
	type rng struct{ start, end int64 }
	ranges := []rng{{1<<31 - 3, 1<<31 + 3}, {1<<32 - 3, 1<<32 + 4}, {1<<32 + 4, 1<<32 + 9}, {1<<53 - 2, 1<<53 + 3}, {1 << 62, 1<<62 + 5}, {1<<63 - 7, 1<<63 - 2}}
	for _, idf := range []string{"index", "cert"} {
		for _, rg := range ranges {
			for _, batch := range []int{1, 2, 3} {
				idf, rg, batch := idf, rg, batch
				name := fmt.Sprintf("one-shot [%d,%d) batch=%d id=%s", rg.start, rg.end, batch, idf)
				r.Eval(1)
				r.Nontrivial("bigindex|" + name)
				synctest.Test(t, func(t *testing.T) {
					lc, err := client.New("http://huge.example/log", &http.Client{Transport: hugeRT{size: hugeSize(rg.end)}}, jsonclient.Options{Logger: nolog{}, PublicKeyDER: srcKey.SPKI})
					if err != nil {
						r.Violation("harness", "client: "+err.Error(), name)
						return
					}
					f := configpb.IdentityFunction_SHA256_CERT_DATA
					if idf == "index" {
						f = configpb.IdentityFunction_SHA256_LEAF_INDEX
					}
					dest := &recDest{}
					pl, err := core.NewPreorderedLogClient(dest, &trillian.Tree{TreeId: 7, TreeType: trillian.TreeType_PREORDERED_LOG}, f, "c20big")
					if err != nil {
						r.Violation("harness", "preordered client: "+err.Error(), name)
						return
					}
					opts := core.OptionsFromConfig(&configpb.MigrationConfig{BatchSize: int32(batch), NumFetchers: 2, NumSubmitters: 2, ChannelSize: 4, StartIndex: rg.start, EndIndex: rg.end, NoConsistencyCheck: true})
					ctrl := core.NewController(opts, lc, pl, factory{&election{}}, monitoring.InertMetricFactory{})
					ctx, cancel := context.WithTimeout(context.Background(), time.Hour)
					defer cancel()
					if err := ctrl.Run(ctx); err != nil {
						r.Violation("big-index run failed", fmt.Sprintf("%s: %v", name, err), name)
						return
					}
					got := map[int64]*trillian.LogLeaf{}
					ids := map[string]int64{}
					for _, l := range dest.adds {
						if _, dup := got[l.LeafIndex]; dup {
							r.Violation("big-index: index submitted twice", fmt.Sprintf("%s: index %d", name, l.LeafIndex), name)
						}
						got[l.LeafIndex] = l
						if l.LeafIndex < rg.start || l.LeafIndex >= rg.end {
							r.Violation("big-index: leaf outside the configured range", fmt.Sprintf("%s: index %d", name, l.LeafIndex), name)
							continue
						}
						e := hugeEntry(l.LeafIndex)
						if !bytes.Equal(l.LeafValue, e.leafInput) || !bytes.Equal(l.ExtraData, e.extraData) {
							r.Violation("big-index: leaf differs from the source's entry for its index", fmt.Sprintf("%s: index %d", name, l.LeafIndex), name)
						}
						want := sha256.Sum256(e.certData)
						if idf == "index" {
							var b [8]byte
							binary.LittleEndian.PutUint64(b[:], uint64(l.LeafIndex))
							want = sha256.Sum256(b[:])
							if o, clash := ids[string(l.LeafIdentityHash)]; clash && o != l.LeafIndex {
								r.Violation("big-index: two indices share an identity hash", fmt.Sprintf("%s: indices %d and %d", name, o, l.LeafIndex), name)
							}
							ids[string(l.LeafIdentityHash)] = l.LeafIndex
						}
						if !bytes.Equal(l.LeafIdentityHash, want[:]) {
							r.Violation("big-index: wrong identity hash", fmt.Sprintf("%s: index %d carries %x, the %s identity function gives %x", name, l.LeafIndex, l.LeafIdentityHash, idf, want), name)
						}
					}
					for i := rg.start; i < rg.end; i++ {
						if got[i] == nil {
							r.Violation("big-index: gap after a successful run", fmt.Sprintf("%s: index %d was never submitted", name, i), name)
							break
						}
					}
				})
			}
		}
	}
}
