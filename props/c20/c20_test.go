//go:build go1.25

//go:debug randseednop=0

// C20 — migration mirrors the source entry for entry and refuses inconsistent sources.
//
// Engine A with restart histories: core.Controller.Run / RunWhenMaster is driven
// with a real client.LogClient over a gated source log (HTTP round trips, signed
// STHs) and a PreorderedLogClient over a gated reference pre-ordered backend.
// The director decides the order and content of every answer (source: full /
// short / 429 / 500 / wrong consistency proof; destination: ok /
// ResourceExhausted / Internal / DeadlineExceeded), source growth between
// passes, cancellation, mastership loss and restarts.
package c20

import (
	"os"
	"bytes"
	"context"
	"crypto/sha256"
	"encoding/base64"
	"encoding/binary"
	"encoding/json"
	"errors"
	"fmt"
	"io"
	"net/http"
	"sort"
	"strconv"
	"strings"
	"sync"
	"sync/atomic"
	"testing"
	"testing/synctest"
	"time"

	"verif/engine/enum"
	"verif/engine/gate"
	"verif/engine/rep"
	"verif/ref/ct6962"
	"verif/ref/merkle"
	"verif/ref/pki"
	"verif/ref/reflog"

	ct "github.com/google/certificate-transparency-go"
	"github.com/google/certificate-transparency-go/client"
	"github.com/google/certificate-transparency-go/jsonclient"
	"github.com/google/certificate-transparency-go/trillian/migrillian/configpb"
	"github.com/google/certificate-transparency-go/trillian/migrillian/core"
	"github.com/google/certificate-transparency-go/x509"
	"github.com/google/trillian"
	"github.com/google/trillian/monitoring"
	"github.com/google/trillian/util/election2"
	"google.golang.org/grpc"
	"google.golang.org/grpc/codes"
	gstatus "google.golang.org/grpc/status"
	"google.golang.org/protobuf/proto"
	"k8s.io/klog/v2"
)

// ---- the source log ----------------------------------------------------------------

type entry struct {
	leafInput, extraData []byte
	certData             []byte
}

var (
	srcKey  = pki.LoadKey("p256-4")
	entries []entry // the honest source log's entries
	forked  []entry // same as entries except index 1
)

func mkEntry(i int, cert []byte) entry {
	li, err := ct6962.AppendMerkleTreeLeaf(nil, ct6962.MerkleTreeLeaf{Version: 0, LeafType: 0,
		Entry: ct6962.TimestampedEntry{Timestamp: uint64(5000 + i), SignedEntry: ct6962.SignedEntry{EntryType: 0, Cert: cert}, Extensions: nil}})
	if err != nil {
		panic(err)
	}
	xd, err := ct6962.AppendCertificateChain(nil, nil)
	if err != nil {
		panic(err)
	}
	return entry{leafInput: li, extraData: xd, certData: cert}
}

// mkPreEntry is a precertificate entry: the leaf carries issuer key hash and TBSCertificate, the extra data the precertificate and its chain.
func mkPreEntry(i int, pre, tbs []byte, chain [][]byte, ikh [32]byte) entry {
	li, err := ct6962.AppendMerkleTreeLeaf(nil, ct6962.MerkleTreeLeaf{Version: 0, LeafType: 0,
		Entry: ct6962.TimestampedEntry{Timestamp: uint64(5000 + i), SignedEntry: ct6962.SignedEntry{EntryType: ct6962.PrecertEntry, IssuerKeyHash: ikh, TBS: tbs}, Extensions: nil}})
	if err != nil {
		panic(err)
	}
	xd, err := ct6962.AppendPrecertChainEntry(nil, ct6962.PrecertChainEntry{PreCertificate: pre, Chain: chain})
	if err != nil {
		panic(err)
	}
	return entry{leafInput: li, extraData: xd, certData: pre}
}

// The source log holds every kind of entry a real log does: certificates and precertificates that parse cleanly,
// that parse with a remark the lenient parser does not treat as fatal (an RSA key published without the NULL
// parameters), and that do not parse at all. All of them are to be copied verbatim.
func init() {
	root := pki.NewRoot("C20 Root", pki.LoadKey("p256-0"))
	ikh := root.T.Key.KeyHash()
	for i := 0; i < 8; i++ {
		cn := fmt.Sprintf("c20-%d", i)
		pre := func(k string) *pki.Cert {
			return pki.NewLeaf(cn, pki.LoadKey(k), root, pki.LeafOpts{Exts: []pki.Ext{pki.ExtSAN(cn + ".example"), pki.ExtPoison()}})
		}
		switch {
		case i%3 == 1:
			entries = append(entries, mkEntry(i, []byte(fmt.Sprintf("not a certificate at all #%d", i)))) // unparsable: must be copied verbatim
		case i == 2:
			p := pre("p256-2")
			entries = append(entries, mkPreEntry(i, p.DER, p.TBS, [][]byte{root.DER}, ikh))
		case i == 3:
			entries = append(entries, mkEntry(i, pki.NewLeaf(cn, pki.LoadKey("rsa2048-1~nonull"), root, pki.LeafOpts{}).DER))
		case i == 5:
			p := pre("rsa2048-1~nonull")
			entries = append(entries, mkPreEntry(i, p.DER, p.TBS, [][]byte{root.DER}, ikh))
		case i == 6:
			p := pre("p256-2")
			entries = append(entries, mkPreEntry(i, p.DER, []byte("not a TBSCertificate"), [][]byte{root.DER}, ikh))
		default:
			entries = append(entries, mkEntry(i, pki.NewLeaf(cn, pki.LoadKey("p256-2"), root, pki.LeafOpts{}).DER))
		}
	}
	// the harness relies on these parser verdicts: say so loudly if the fixtures stop producing them
	for i, want := range map[int]string{0: "clean", 2: "clean", 3: "remark", 5: "remark", 1: "fatal", 6: "fatal"} {
		rle, err := ct.RawLogEntryFromLeaf(int64(i), &ct.LeafEntry{LeafInput: entries[i].leafInput, ExtraData: entries[i].extraData})
		if err != nil {
			panic(fmt.Sprintf("harness: source entry %d has no raw form: %v", i, err))
		}
		_, err = rle.ToLogEntry()
		got := "clean"
		if x509.IsFatal(err) {
			got = "fatal"
		} else if err != nil {
			got = "remark"
		}
		if got != want {
			panic(fmt.Sprintf("harness: source entry %d parses as %q (%v), fixture meant %q", i, got, err, want))
		}
	}
	forked = append([]entry{}, entries...)
	forked[1] = mkEntry(1, []byte("a different second entry"))
}

func leafHashes(es []entry, n int) [][]byte {
	var out [][]byte
	for _, e := range es[:n] {
		out = append(out, merkle.LeafHash(e.leafInput))
	}
	return out
}

func sthBody(n int, badSig bool) []byte {
	root := merkle.Root(leafHashes(entries, n))
	var r32 [32]byte
	copy(r32[:], root)
	ts := uint64(9000 + n)
	in, err := ct6962.AppendSTHSignatureInput(nil, 0, ts, uint64(n), r32)
	if err != nil {
		panic(err)
	}
	sig := srcKey.SignTBS(in)
	if badSig {
		sig[len(sig)-1] ^= 1
	}
	ds := append([]byte{4, 3, byte(len(sig) >> 8), byte(len(sig))}, sig...)
	return []byte(fmt.Sprintf(`{"tree_size":%d,"timestamp":%d,"sha256_root_hash":%q,"tree_head_signature":%q}`, n, ts,
		base64.StdEncoding.EncodeToString(root), base64.StdEncoding.EncodeToString(ds)))
}

// ---- scenario ------------------------------------------------------------------------

type scenario struct {
	N          int    // source size at the start
	Dest       string // "empty", "prefix1", "prefix2", "full", "fork2" (two entries of a fork), "ahead" (more than the source has)
	Batch      int
	Fetchers   int
	Submitters int
	Chan       int
	Continuous bool
	Grow       []int  // continuous: successive publications
	IDFunc     string // "cert", "index"
	Mode       string // "run" (Controller.Run), "master" (RunWhenMaster with a scripted election)
	Restarts   int    // how many times a failed/cancelled run may be restarted on the same destination
	Faults     int
	Bound      int
	NoCheck    bool // NoConsistencyCheck option
	LagRoot    bool  // the destination's signer lags throughout: its root never moves past the initial tree (the canonical answer to a root read is the stale one)
	Quota      int   // the destination's first Quota answers to AddSequencedLeaves are ResourceExhausted by default (a quota that stays exhausted for a while): the back-off runs through 1 s, 3 s, 9 s, 27 s
	End        int64 // FetcherOptions.EndIndex; only set in continuous scenarios, where it is documented as ignored
}

func (s scenario) String() string {
	return fmt.Sprintf("N=%d dest=%s batch=%d fetchers=%d submitters=%d chan=%d cont=%v grow=%v id=%s mode=%s restarts=%d faults=%d nocheck=%v bound=%d end_index=%d",
		s.N, s.Dest, s.Batch, s.Fetchers, s.Submitters, s.Chan, s.Continuous, s.Grow, s.IDFunc, s.Mode, s.Restarts, s.Faults, s.NoCheck, s.Bound, s.End) + fmt.Sprintf(" quota_streak=%d lagging_destination_root=%v", s.Quota, s.LagRoot)
}

// gated HTTP source
type srcInfo struct {
	path          string
	start, end    int64
	first, second int64
}

type srcAnswer struct {
	kind string // "ok", "short:n", "429", "500", "neterr", "badsig", "wrongproof", "400"
	n    int
}

type world struct {
	unfaulted bool // the director never deviated from an honest, available source and destination (an exhausted quota that recovers is not a fault), nor cancelled or revoked
	env  *gate.Env
	mu   sync.Mutex
	size int // current source size
	// observations
	sthServed     []int // tree sizes of STHs served with a good signature, in order
	proofsOK      map[[2]int64]bool
	adds          []*trillian.AddSequencedLeavesRequest
	addAnswers    []string
	passMark      []int // index into adds at which each getRoot answer happened
	rootsAnswered []rootObs
	srcReqs       []srcInfo
}

type rootObs struct {
	size    uint64
	addsLen int
	sthLen  int
	proofs  int
}

type srcRT struct{ w *world }

func (s srcRT) RoundTrip(req *http.Request) (*http.Response, error) {
	q := req.URL.Query()
	info := srcInfo{path: req.URL.Path[strings.LastIndex(req.URL.Path, "/")+1:]}
	key := info.path
	switch info.path {
	case "get-entries":
		info.start, _ = strconv.ParseInt(q.Get("start"), 10, 64)
		info.end, _ = strconv.ParseInt(q.Get("end"), 10, 64)
		key = fmt.Sprintf("get-entries(%d,%d)", info.start, info.end)
	case "get-sth-consistency":
		info.first, _ = strconv.ParseInt(q.Get("first"), 10, 64)
		info.second, _ = strconv.ParseInt(q.Get("second"), 10, 64)
		key = fmt.Sprintf("get-sth-consistency(%d,%d)", info.first, info.second)
	}
	s.w.mu.Lock()
	s.w.srcReqs = append(s.w.srcReqs, info)
	s.w.mu.Unlock()
	v, err := s.w.env.AskCtx(req.Context(), key, "src", info)
	if err != nil {
		return nil, err
	}
	if _, ok := v.(gate.Aborted); ok {
		return nil, errors.New("harness shut down")
	}
	a := v.(srcAnswer)
	mk := func(st int, body []byte) (*http.Response, error) {
		return &http.Response{StatusCode: st, Status: fmt.Sprintf("%d %s", st, http.StatusText(st)), Header: http.Header{},
			Body: io.NopCloser(bytes.NewReader(body)), Request: req}, nil
	}
	switch a.kind {
	case "429":
		return mk(429, []byte("slow down"))
	case "500":
		return mk(500, []byte("oops"))
	case "400":
		return mk(400, []byte("bad request"))
	case "neterr":
		return nil, errors.New("connection reset")
	}
	s.w.mu.Lock()
	defer s.w.mu.Unlock()
	switch info.path {
	case "get-sth":
		if a.kind == "badsig" {
			return mk(200, sthBody(s.w.size, true))
		}
		if a.kind == "stale" {
			// an older, genuine tree head (a front end of the source that lags): a.n entries
			s.w.sthServed = append(s.w.sthServed, a.n)
			return mk(200, sthBody(a.n, false))
		}
		s.w.sthServed = append(s.w.sthServed, s.w.size)
		return mk(200, sthBody(s.w.size, false))
	case "get-sth-consistency":
		var pf [][]byte
		if info.first >= 1 && info.first <= info.second && int(info.second) <= s.w.size {
			pf = merkle.Proof(int(info.first), leafHashes(entries, int(info.second)))
		}
		if a.kind == "wrongproof" {
			pf = append([][]byte{merkle.LeafHash([]byte("bogus"))}, pf...)
		} else {
			s.w.proofsOK[[2]int64{info.first, info.second}] = true
		}
		b, _ := json.Marshal(map[string]any{"consistency": pf})
		return mk(200, b)
	case "get-entries":
		n := a.n
		type le struct {
			LeafInput []byte `json:"leaf_input"`
			ExtraData []byte `json:"extra_data"`
		}
		var out []le
		for i := 0; i < n; i++ {
			e := entries[info.start+int64(i)]
			out = append(out, le{e.leafInput, e.extraData})
		}
		b, _ := json.Marshal(map[string]any{"entries": out})
		return mk(200, b)
	}
	return mk(404, []byte("no such endpoint"))
}

// gated destination: a reference pre-ordered backend behind gates
type destClient struct {
	trillian.TrillianLogClient // the reference backend (methods not overridden are not used)
	w                          *world
	log                        *reflog.Log
}

func (d *destClient) GetLatestSignedLogRoot(ctx context.Context, in *trillian.GetLatestSignedLogRootRequest, _ ...grpc.CallOption) (*trillian.GetLatestSignedLogRootResponse, error) {
	v, err := d.w.env.AskCtx(ctx, "dest.GetLatestSignedLogRoot", "root", nil)
	if err != nil {
		return nil, err
	}
	if _, ok := v.(gate.Aborted); ok {
		return nil, errors.New("harness shut down")
	}
	switch v.(string) {
	case "error":
		return nil, gstatus.Error(codes.Unavailable, "backend unavailable")
	case "integrate":
		d.log.Sequence(-1, uint64(gate.Now()))
	}
	rsp, err := d.log.GetLatestSignedLogRoot(ctx, in)
	if err == nil {
		d.w.mu.Lock()
		d.w.rootsAnswered = append(d.w.rootsAnswered, rootObs{size: uint64(d.log.Size()), addsLen: len(d.w.adds), sthLen: len(d.w.sthServed), proofs: len(d.w.proofsOK)})
		d.w.mu.Unlock()
	}
	return rsp, err
}

func (d *destClient) AddSequencedLeaves(ctx context.Context, in *trillian.AddSequencedLeavesRequest, _ ...grpc.CallOption) (*trillian.AddSequencedLeavesResponse, error) {
	first := int64(-1)
	if len(in.Leaves) > 0 {
		first = in.Leaves[0].LeafIndex
	}
	d.w.mu.Lock()
	d.w.adds = append(d.w.adds, proto.Clone(in).(*trillian.AddSequencedLeavesRequest))
	idx := len(d.w.adds) - 1
	d.w.addAnswers = append(d.w.addAnswers, "")
	d.w.mu.Unlock()
	v, err := d.w.env.AskCtx(ctx, fmt.Sprintf("dest.AddSequencedLeaves(%d,+%d)", first, len(in.Leaves)), "add", nil)
	if err != nil {
		return nil, err
	}
	if _, ok := v.(gate.Aborted); ok {
		return nil, errors.New("harness shut down")
	}
	a := v.(string)
	d.w.mu.Lock()
	d.w.addAnswers[idx] = a
	d.w.mu.Unlock()
	switch a {
	case "exhausted":
		return nil, gstatus.Error(codes.ResourceExhausted, "quota")
	case "internal":
		return nil, gstatus.Error(codes.Internal, "disk on fire")
	case "deadline":
		return nil, gstatus.Error(codes.DeadlineExceeded, "too slow")
	case "canceled":
		return nil, gstatus.Error(codes.Canceled, "request canceled by the server side")
	}
	rsp, err := d.log.AddSequencedLeaves(ctx, in)
	if err != nil {
		// the reference backend itself refuses the request (an empty batch, after the source answered with no entries):
		// a failed batch like one answered Internal
		d.w.mu.Lock()
		d.w.addAnswers[idx] = "refused"
		d.w.mu.Unlock()
	}
	return rsp, err
}

// scripted election: always elected at once; the director may revoke mastership
type election struct {
	mu      sync.Mutex
	cancels []context.CancelFunc
}

func (e *election) Await(ctx context.Context) error { return ctx.Err() }
func (e *election) WithMastership(ctx context.Context) (context.Context, error) {
	c, cancel := context.WithCancel(ctx)
	e.mu.Lock()
	e.cancels = append(e.cancels, cancel)
	e.mu.Unlock()
	return c, nil
}
func (e *election) Resign(context.Context) error { return nil }
func (e *election) Close(context.Context) error  { return nil }
func (e *election) revoke() {
	e.mu.Lock()
	cs := e.cancels
	e.cancels = nil
	e.mu.Unlock()
	for _, c := range cs {
		c()
	}
}

type factory struct{ e *election }

func (f factory) NewElection(context.Context, string) (election2.Election, error) { return f.e, nil }

type nolog struct{}

func (nolog) Printf(string, ...interface{}) {}

func idHash(sc scenario, i int, e entry) []byte {
	if sc.IDFunc == "index" {
		b := make([]byte, 8)
		binary.LittleEndian.PutUint64(b, uint64(i))
		h := sha256.Sum256(b)
		return h[:]
	}
	h := sha256.Sum256(e.certData)
	return h[:]
}

func runScenario(sc scenario) func(t *testing.T, x *gate.Exec) {
	return func(t *testing.T, x *gate.Exec) {
		env := gate.NewEnv()
		w := &world{env: env, size: sc.N, proofsOK: map[[2]int64]bool{}}
		dlog := reflog.New(7)
		dlog.Preorder = true
		// destination initial state
		pre := func(es []entry, n int) {
			var ls []*trillian.LogLeaf
			for i := 0; i < n; i++ {
				ls = append(ls, &trillian.LogLeaf{LeafIndex: int64(i), LeafValue: es[i].leafInput, ExtraData: es[i].extraData, LeafIdentityHash: idHash(sc, i, es[i])})
			}
			if n > 0 {
				if _, err := dlog.AddSequencedLeaves(context.Background(), &trillian.AddSequencedLeavesRequest{LogId: 7, Leaves: ls}); err != nil {
					panic(err)
				}
				dlog.Sequence(-1, 1)
			}
		}
		destFork := false
		switch sc.Dest {
		case "prefix1":
			pre(entries, 1)
		case "prefix2":
			pre(entries, 2)
		case "full":
			pre(entries, sc.N)
		case "fork2":
			pre(forked, 2)
			destFork = true
		case "ahead":
			pre(entries, sc.N+1)
		}
		dlog.ResetCalls()
		initial := dlog.Size()
		dest := &destClient{TrillianLogClient: dlog, w: w, log: dlog}
		lc, err := client.New("http://source.example/log", &http.Client{Transport: srcRT{w}}, jsonclient.Options{Logger: nolog{}, PublicKeyDER: srcKey.SPKI})
		if err != nil {
			x.Violation("harness", "client: %v", err)
			return
		}
		idf := configpb.IdentityFunction_SHA256_CERT_DATA
		if sc.IDFunc == "index" {
			idf = configpb.IdentityFunction_SHA256_LEAF_INDEX
		}
		pl, err := core.NewPreorderedLogClient(dest, &trillian.Tree{TreeId: 7, TreeType: trillian.TreeType_PREORDERED_LOG}, idf, "c20")
		if err != nil {
			x.Violation("harness", "preordered client: %v", err)
			return
		}
		// the options come from a migration configuration, as in the migrillian binary; a count of 0 is "not specified" (documented default: 1)
		opts := core.OptionsFromConfig(&configpb.MigrationConfig{BatchSize: int32(sc.Batch), NumFetchers: int32(sc.Fetchers), NumSubmitters: int32(sc.Submitters),
			ChannelSize: int32(sc.Chan), IsContinuous: sc.Continuous, EndIndex: sc.End, NoConsistencyCheck: sc.NoCheck})
		el := &election{}
		ctx, cancel := context.WithCancel(context.Background())
		defer cancel()
		var mu sync.Mutex
		running := false
		var results []runResult
		startRun := func() {
			ctrl := core.NewController(opts, lc, pl, factory{el}, monitoring.InertMetricFactory{})
			w.mu.Lock()
			from, sf := len(w.adds), len(w.sthServed)
			w.mu.Unlock()
			mu.Lock()
			running = true
			mu.Unlock()
			go func() {
				var err error
				if sc.Mode == "master" {
					err = ctrl.RunWhenMaster(ctx)
				} else {
					err = ctrl.Run(ctx)
				}
				w.mu.Lock()
				to := len(w.adds)
				w.mu.Unlock()
				mu.Lock()
				results = append(results, runResult{err, from, to, sf})
				running = false
				mu.Unlock()
				env.Notify()
			}()
		}
		isRunning := func() bool { mu.Lock(); defer mu.Unlock(); return running }
		startRun()
		faults := sc.Faults
		quotaLeft := sc.Quota
		staleRoots := 0
		restarts := sc.Restarts
		growIdx := 0
		cancelled := false
		revoked := false
		idleSleeps := 0
		stuck := false
		endedDrained := false
		sthServedSoFar := func() int { w.mu.Lock(); defer w.mu.Unlock(); return len(w.sthServed) }
		reOut := map[string]bool{} // batches answered ResourceExhausted whose retry has not been answered yet
		for steps := 0; ; steps++ {
			synctest.Wait()
			pend := env.Pending()
			if !isRunning() {
				mu.Lock()
				last := results[len(results)-1]
				mu.Unlock()
				if last.err != nil && restarts > 0 && !cancelled {
					// Engine C flavour: a new controller on the destination state the previous one left
					if x.Choose([]gate.Alt{{Label: "restart on the same destination", Cost: 0}, {Label: "give up", Cost: 1}}) == 0 {
						restarts--
						startRun()
						continue
					}
				}
				break
			}
			if steps > 300 {
				x.Violation("horizon", "%v did not finish within 300 decision points", sc)
				break
			}
			type act struct {
				alt gate.Alt
				do  func()
			}
			var acts []act
			add := func(l string, c int, f func()) { acts = append(acts, act{gate.Alt{Label: l, Cost: c}, f}) }
			for pi, p := range pend {
				base := 0
				if pi > 0 {
					base = 1
				}
				fault := func(label string, v any) {
					if faults > 0 {
						add(p.Key+" <- "+label, base+1, func() { faults--; env.Answer(p, v) })
					}
				}
				switch p.Kind {
				case "root":
					// a pass begins by reading the destination root: whatever batch of an earlier pass was waiting out a
					// ResourceExhausted back-off has been abandoned with that pass (cancel, mastership loss, restart)
					if sc.LagRoot {
						add(p.Key+" <- stale root (signer lags)", base, func() { clear(reOut); env.Answer(p, "stale") })
					} else {
						add(p.Key+" <- integrate+root", base, func() { clear(reOut); env.Answer(p, "integrate") })
						add(p.Key+" <- stale root (signer lags)", base+1, func() { clear(reOut); staleRoots++; env.Answer(p, "stale") })
					}
					fault("error", "error")
				case "add":
					batch := p.Key[:strings.LastIndex(p.Key, "#")]
					if quotaLeft > 0 {
						add(p.Key+" <- ResourceExhausted (quota still exhausted)", base, func() { quotaLeft--; reOut[batch] = true; env.Answer(p, "exhausted") })
						add(p.Key+" <- ok", base+1, func() { quotaLeft = 0; delete(reOut, batch); env.Answer(p, "ok") })
					} else {
						add(p.Key+" <- ok", base, func() { delete(reOut, batch); env.Answer(p, "ok") })
					}
					if faults > 0 {
						add(p.Key+" <- ResourceExhausted", base+1, func() { faults--; reOut[batch] = true; env.Answer(p, "exhausted") })
						add(p.Key+" <- Internal", base+1, func() { faults--; delete(reOut, batch); env.Answer(p, "internal") })
						add(p.Key+" <- DeadlineExceeded", base+1, func() { faults--; delete(reOut, batch); env.Answer(p, "deadline") })
						// a Canceled status that comes from the destination (a proxy, a restarting front end) while the
						// migrator's own context is live: a failed batch like any other
						add(p.Key+" <- Canceled (by the server)", base+1, func() { faults--; delete(reOut, batch); env.Answer(p, "canceled") })
					}
				case "src":
					info := p.Info.(srcInfo)
					switch info.path {
					case "get-sth":
						// continuous mode: after one idle sleep the source publishes its next
						// growth step; when nothing is left to publish and the controller has
						// slept twice more, only ending the run remains
						growNow := sc.Continuous && growIdx < len(sc.Grow) && idleSleeps > 0
						drained := sc.Continuous && growIdx >= len(sc.Grow) && idleSleeps >= 2
						if growNow {
							k := sc.Grow[growIdx]
							add(fmt.Sprintf("publish %d then %s <- STH(%d)", k, p.Key, w.size+k), base, func() {
								w.mu.Lock()
								w.size += k
								w.mu.Unlock()
								growIdx++
								idleSleeps = 0
								env.Answer(p, srcAnswer{kind: "ok"})
							})
						} else if !drained {
							add(fmt.Sprintf("%s <- STH(%d)", p.Key, w.size), base, func() { env.Answer(p, srcAnswer{kind: "ok"}) })
						}
						// the source publishes between two get-sth calls of one pass (one-shot mode never asks twice
						// per pass; a controller that does must not copy beyond what it verified)
						if faults > 0 && !sc.Continuous && sthServedSoFar() > 0 && w.size+2 <= len(entries) {
							add(fmt.Sprintf("publish 2 then %s <- STH(%d)", p.Key, w.size+2), base+1, func() {
								faults--
								w.mu.Lock()
								w.size += 2
								w.mu.Unlock()
								env.Answer(p, srcAnswer{kind: "ok"})
							})
						}
						// an older genuine tree head than one already served (continuous mode: the position never moves backwards)
						if sc.Continuous && faults > 0 {
							w.mu.Lock()
							older := -1
							for _, n := range w.sthServed {
								if n < w.size && n > older {
									older = n
								}
							}
							w.mu.Unlock()
							if older >= 0 {
								fault(fmt.Sprintf("stale STH(%d)", older), srcAnswer{kind: "stale", n: older})
							}
						}
						fault("STH with bad signature", srcAnswer{kind: "badsig"})
						fault("500", srcAnswer{kind: "500"})
					case "get-sth-consistency":
						add(p.Key+" <- proof", base, func() { env.Answer(p, srcAnswer{kind: "ok"}) })
						fault("wrong proof", srcAnswer{kind: "wrongproof"})
						fault("500", srcAnswer{kind: "500"})
					case "get-entries":
						avail := int64(w.size) - info.start
						full := info.end - info.start + 1
						if avail < full {
							full = avail
						}
						if full >= 1 {
							add(fmt.Sprintf("%s <- %d entries", p.Key, full), base, func() { env.Answer(p, srcAnswer{kind: "ok", n: int(full)}) })
							fault("0 entries", srcAnswer{kind: "ok", n: 0})
							for n := int64(1); n < full; n++ {
								fault(fmt.Sprintf("short %d", n), srcAnswer{kind: "ok", n: int(n)})
							}
						} else {
							add(p.Key+" <- 400 beyond tree", base, func() { env.Answer(p, srcAnswer{kind: "400"}) })
						}
						fault("429", srcAnswer{kind: "429"})
						fault("500", srcAnswer{kind: "500"})
						fault("neterr", srcAnswer{kind: "neterr"})
					}
				}
			}
			if len(pend) == 0 {
				add("tick", 0, func() {
					// waiting out the back-off of a batch answered ResourceExhausted is not an idle poll
					if len(reOut) == 0 {
						idleSleeps++
					}
					if !env.WaitActivity(3600*time.Second, 1100*time.Millisecond) {
						stuck = true
					}
				})
			}
			if !cancelled {
				endCost := 1
				// a continuous migration only ends when told to: once it has slept twice with
				// nothing new and nothing more will be published, cancelling is the default
				if sc.Continuous && growIdx >= len(sc.Grow) && idleSleeps >= 2 {
					endCost = 0
				}
				if sc.Continuous || faults > 0 || endCost == 0 {
					add("cancel", endCost, func() { cancelled = true; endedDrained = endCost == 0 && !revoked; cancel() })
				}
				if sc.Mode == "master" && !revoked && faults > 0 {
					add("mastership lost", 1, func() { revoked = true; faults--; el.revoke() })
				}
			}
			sort.SliceStable(acts, func(i, j int) bool { return acts[i].alt.Cost < acts[j].alt.Cost })
			alts := make([]gate.Alt, len(acts))
			for i := range acts {
				alts[i] = acts[i].alt
			}
			acts[x.Choose(alts)].do()
			if stuck {
				x.Violation("no-progress", "%v: controller running, nothing pending and no timer or call for 1 h of virtual time", sc)
				break
			}
		}
		cancel()
		env.Shutdown()
		synctest.Wait()
		if isRunning() {
			time.Sleep(3 * time.Hour)
			synctest.Wait()
		}
		if isRunning() {
			x.Violation("no-termination", "%v: the controller did not return after cancel", sc)
			return
		}
		w.unfaulted = faults == sc.Faults && staleRoots == 0 && !cancelled && !revoked
		oracle(sc, x, w, dlog, results, initial, destFork, cancelled, revoked, endedDrained)
	}
}

type runResult struct {
	err              error
	addsFrom, addsTo int
	sthFrom          int
}

func have2(dlog *reflog.Log, i int64) bool {
	for _, lf := range dlog.Stored() {
		if lf.LeafIndex == i {
			return true
		}
	}
	return false
}

func oracle(sc scenario, x *gate.Exec, w *world, dlog *reflog.Log, runs []runResult, initial int, destFork, cancelled, revoked, endedDrained bool) {
	w.mu.Lock()
	defer w.mu.Unlock()
	// O1: every submitted leaf is the source's entry for its index, under that index, with the configured identity hash
	for ai, req := range w.adds {
		if req.LogId != 7 {
			x.Violation("wrong-tree-id", "%v: AddSequencedLeaves for tree %d", sc, req.LogId)
		}
		for k, lf := range req.Leaves {
			i := int(lf.LeafIndex)
			if k > 0 && lf.LeafIndex != req.Leaves[k-1].LeafIndex+1 {
				x.Violation("non-contiguous-batch", "%v: request %d has indices %d then %d", sc, ai, req.Leaves[k-1].LeafIndex, lf.LeafIndex)
			}
			if i < 0 || i >= len(entries) {
				x.Violation("index-out-of-source", "%v: leaf index %d", sc, i)
				continue
			}
			e := entries[i]
			if !bytes.Equal(lf.LeafValue, e.leafInput) || !bytes.Equal(lf.ExtraData, e.extraData) {
				x.Violation("leaf-differs-from-source", "%v: leaf submitted under index %d is not the source's leaf_input/extra_data for %d", sc, i, i)
			}
			if !bytes.Equal(lf.LeafIdentityHash, idHash(sc, i, e)) {
				x.Violation("wrong-identity-hash", "%v: index %d", sc, i)
			}
		}
	}
	// per pass (a pass starts with an answered destination root)
	for pi, ro := range w.rootsAnswered {
		endAdds := len(w.adds)
		endSTH := len(w.sthServed)
		if pi+1 < len(w.rootsAnswered) {
			endAdds = w.rootsAnswered[pi+1].addsLen
			endSTH = w.rootsAnswered[pi+1].sthLen
		}
		passAdds := w.adds[ro.addsLen:endAdds]
		// O2: nothing beyond the source tree size verified in this pass
		maxSTH := -1
		for _, s := range w.sthServed[ro.sthLen:endSTH] {
			if s > maxSTH {
				maxSTH = s
			}
		}
		for _, req := range passAdds {
			for _, lf := range req.Leaves {
				if maxSTH < 0 || int(lf.LeafIndex) >= maxSTH {
					x.Violation("write-beyond-verified-sth", "%v: pass %d wrote index %d but the largest STH it was served (with a valid signature) has size %d", sc, pi, lf.LeafIndex, maxSTH)
				}
			}
		}
		// O3: a non-empty destination root is only moved past with a valid consistency proof
		if ro.size > 0 && len(passAdds) > 0 && !sc.NoCheck {
			ok := false
			for k := range w.proofsOK {
				if uint64(k[0]) == ro.size && int(k[1]) == maxSTH {
					ok = true
				}
			}
			if !ok {
				x.Violation("write-without-consistency-proof", "%v: pass %d started from destination size %d and wrote %d batch(es) without an honest consistency proof %d->%d having been served", sc, pi, ro.size, len(passAdds), ro.size, maxSTH)
			}
			if destFork {
				x.Violation("write-on-forked-destination", "%v: the destination holds a fork's prefix, yet pass %d wrote", sc, pi)
			}
		}
	}
	// O4a: with an honest, available source and destination (whose quota may stay exhausted for a while) and a destination
	// that holds a prefix of the source, a one-shot run has no reason to fail
	if w.unfaulted && !sc.Continuous && !destFork && sc.Dest != "ahead" && sc.Dest != "fork2" {
		for ri, r := range runs {
			if r.err != nil {
				x.Violation("run-failed-although-nothing-went-wrong", "%v: run %d returned %v; every request was answered honestly (ResourceExhausted answers: %d)", sc, ri, r.err, sc.Quota)
			}
		}
	}
	// O4b: within one run the controller's position only moves forward: no index is stored twice by the same run
	// (restarts and regained mastership begin again from the destination's root, which may lag: excluded)
	if sc.Mode == "run" && len(runs) == 1 {
		okAdds := map[int64]int{}
		for ai, a := range w.addAnswers {
			if a == "ok" && ai < len(w.adds) {
				for _, lf := range w.adds[ai].Leaves {
					okAdds[lf.LeafIndex]++
				}
			}
		}
		for i, n := range okAdds {
			if n > 1 {
				x.Violation("index-submitted-again-by-the-same-run", "%v: index %d was accepted by the destination %d times within one run", sc, i, n)
				break
			}
		}
	}
	// O4: ResourceExhausted is retried with the same request
	for ai, a := range w.addAnswers {
		if a != "exhausted" {
			continue
		}
		retried := false
		for aj := ai + 1; aj < len(w.adds); aj++ {
			if proto.Equal(w.adds[aj], w.adds[ai]) {
				retried = true
				break
			}
		}
		// a fatal answer to another batch of the same run aborts the pass: the retry is then not owed
		aborted := false
		for _, r := range runs {
			if ai >= r.addsFrom && ai < r.addsTo {
				for aj := r.addsFrom; aj < r.addsTo && aj < len(w.addAnswers); aj++ {
					if b := w.addAnswers[aj]; aj != ai && (b == "internal" || b == "deadline" || b == "canceled" || b == "refused") {
						aborted = true
					}
				}
			}
		}
		if !retried && !cancelled && !revoked && !aborted {
			var res []string
			for _, r := range runs {
				res = append(res, fmt.Sprint(r.err))
			}
			x.Violation("resource-exhausted-not-retried", "%v: batch starting at %d got ResourceExhausted and was never sent again (run results %v)", sc, w.adds[ai].Leaves[0].LeafIndex, res)
		}
	}
	// O5: any other destination error ends the pass: the same batch is not sent again in that pass,
	// and a one-shot run that met one does not report success
	for pi, ro := range w.rootsAnswered {
		endAdds := len(w.adds)
		if pi+1 < len(w.rootsAnswered) {
			endAdds = w.rootsAnswered[pi+1].addsLen
		}
		for ai := ro.addsLen; ai < endAdds; ai++ {
			if a := w.addAnswers[ai]; a == "internal" || a == "deadline" || a == "canceled" {
				for aj := ai + 1; aj < endAdds; aj++ {
					if proto.Equal(w.adds[aj], w.adds[ai]) {
						x.Violation("fatal-destination-error-retried", "%v: batch starting at %d was answered %s and sent again in the same pass", sc, w.adds[ai].Leaves[0].LeafIndex, a)
					}
				}
			}
		}
	}
	if !sc.Continuous {
		for _, r := range runs {
			for ai := r.addsFrom; ai < r.addsTo && ai < len(w.addAnswers); ai++ {
				if a := w.addAnswers[ai]; (a == "internal" || a == "deadline" || a == "canceled") && r.err == nil {
					x.Violation("fatal-destination-error-swallowed", "%v: a batch was answered %s but the run reported success", sc, a)
				}
			}
		}
	}
	if endedDrained {
		// continuous mode, ended by the director only after everything was published and the
		// controller slept twice with nothing new: the destination must hold the whole source
		for i := 0; i < w.size; i++ {
			if !have2(dlog, int64(i)) {
				x.Violation("continuous-gap", "%v: the source has had %d entries for two polls but destination index %d is missing", sc, w.size, i)
				break
			}
		}
	}
	// destination content: index i holds exactly source i
	stored := dlog.Stored()
	have := map[int64]bool{}
	for _, lf := range stored {
		have[lf.LeafIndex] = true
		src := entries
		if destFork && lf.LeafIndex < 2 {
			src = forked
		}
		if int(lf.LeafIndex) >= len(src) || !bytes.Equal(lf.LeafValue, src[lf.LeafIndex].leafInput) || !bytes.Equal(lf.ExtraData, src[lf.LeafIndex].extraData) {
			x.Violation("destination-differs-from-source", "%v: destination index %d", sc, lf.LeafIndex)
		}
	}
	// per run result
	var outs []string
	for ri, r := range runs {
		o := "ok"
		if r.err != nil {
			o = "err"
		}
		outs = append(outs, o)
		if r.err == nil && !sc.Continuous {
			// O6: a pass that reports success left [start, verified size) complete and gap free
			last := -1
			if len(w.sthServed) > r.sthFrom {
				last = w.sthServed[len(w.sthServed)-1]
				for _, s := range w.sthServed[r.sthFrom:] {
					last = s
					break
				}
			}
			if last >= 0 {
				for i := 0; i < last; i++ {
					if !have[int64(i)] {
						x.Violation("gap-after-successful-run", "%v: run %d returned nil with source STH size %d but destination index %d is missing", sc, ri, last, i)
						break
					}
				}
			}
		}
		if r.err == nil && destFork && !sc.NoCheck && sc.N >= 2 {
			x.Violation("forked-destination-accepted", "%v: run %d succeeded although the destination root is not a prefix of the source log", sc, ri)
		}
	}
	// a destination that is not a prefix of the source must be reported by some run (a continuous run that just
	// idles next to it until it is told to stop has moved past the root without a proof as well)
	if destFork && !sc.NoCheck && sc.N >= 2 && len(runs) > 0 {
		raised := false
		for _, r := range runs {
			if r.err != nil && !errors.Is(r.err, context.Canceled) && !strings.Contains(r.err.Error(), "context canceled") {
				raised = true
			}
		}
		served := len(w.sthServed) // w.mu is held by oracle
		if !raised && served > 0 && !revoked && (!cancelled || endedDrained) {
			x.Violation("forked-destination-not-reported", "%v: the destination root is not a prefix of the source log, a source STH was served, yet no run ended with an inconsistency error (results %v)", sc, outs)
		}
	}
	var idx []string
	for _, lf := range stored {
		idx = append(idx, fmt.Sprint(lf.LeafIndex))
	}
	x.Outcome = fmt.Sprintf("stored=%s adds=%d runs=%s", strings.Join(idx, ","), len(w.adds), strings.Join(outs, ","))
}

// ---- driver ------------------------------------------------------------------------------

func scenarios(th bool) []scenario {
	var out []scenario
	b := 2
	for _, dest := range []string{"empty", "prefix1", "prefix2", "full", "fork2", "ahead"} {
		for _, batch := range []int{1, 2, 3} {
			for _, fs := range [][2]int{{1, 1}, {2, 1}, {1, 2}, {2, 2}} {
				if !th && batch == 3 && fs != [2]int{1, 1} {
					continue
				}
				out = append(out, scenario{N: 4, Dest: dest, Batch: batch, Fetchers: fs[0], Submitters: fs[1], Chan: batch % 2, IDFunc: []string{"cert", "index"}[batch%2], Mode: "run", Restarts: 1, Faults: 2, Bound: b})
			}
		}
	}
	// sizes
	for _, n := range []int{0, 1, 5} {
		out = append(out, scenario{N: n, Dest: "empty", Batch: 2, Fetchers: 1, Submitters: 1, IDFunc: "cert", Mode: "run", Restarts: 1, Faults: 2, Bound: b})
	}
	// mastership
	for _, dest := range []string{"empty", "prefix2"} {
		out = append(out, scenario{N: 4, Dest: dest, Batch: 2, Fetchers: 2, Submitters: 2, Chan: 1, IDFunc: "cert", Mode: "master", Restarts: 1, Faults: 2, Bound: b})
	}
	// no consistency check option
	out = append(out, scenario{N: 4, Dest: "prefix2", Batch: 2, Fetchers: 1, Submitters: 1, IDFunc: "cert", Mode: "run", NoCheck: true, Faults: 1, Bound: b})
	// continuous
	for _, fs := range [][2]int{{1, 1}, {2, 2}} {
		out = append(out, scenario{N: 2, Dest: "empty", Batch: 2, Fetchers: fs[0], Submitters: fs[1], Chan: 1, Continuous: true, Grow: []int{1, 2}, IDFunc: "index", Mode: "run", Faults: 1, Bound: b})
		out = append(out, scenario{N: 3, Dest: "prefix1", Batch: 1, Fetchers: fs[0], Submitters: fs[1], Continuous: true, Grow: []int{2}, IDFunc: "cert", Mode: "master", Faults: 1, Restarts: 1, Bound: b})
	}
	// continuous mode ignores end_index (config.proto); a destination as large as the source but of another history
	out = append(out, scenario{N: 2, Dest: "empty", Batch: 2, Fetchers: 1, Submitters: 1, Chan: 1, Continuous: true, Grow: []int{1, 2}, IDFunc: "index", Mode: "run", Faults: 1, Bound: 1, End: 3})
	out = append(out, scenario{N: 2, Dest: "fork2", Batch: 2, Fetchers: 1, Submitters: 1, Chan: 1, Continuous: true, IDFunc: "cert", Mode: "run", Faults: 1, Bound: 1})
	out = append(out, scenario{N: 2, Dest: "fork2", Batch: 1, Fetchers: 1, Submitters: 1, IDFunc: "cert", Mode: "run", Restarts: 1, Faults: 1, Bound: 1})
	// a destination whose signer lags throughout, and a source front end that serves an older tree head now and then
	for _, fs := range [][2]int{{1, 1}, {2, 2}} {
		out = append(out, scenario{N: 2, Dest: "empty", Batch: 2, Fetchers: fs[0], Submitters: fs[1], Chan: 1, Continuous: true, Grow: []int{2, 1}, IDFunc: "cert", Mode: "run", Faults: 1, Bound: 1, LagRoot: true})
		out = append(out, scenario{N: 3, Dest: "prefix1", Batch: 1, Fetchers: fs[0], Submitters: fs[1], Continuous: true, Grow: []int{2}, IDFunc: "index", Mode: "run", Faults: 1, Bound: 1, LagRoot: true})
	}
	// worker counts left out of the configuration
	for _, fs := range [][2]int{{0, 0}, {1, 0}, {2, 0}, {0, 1}, {0, 2}} {
		out = append(out, scenario{N: 4, Dest: "empty", Batch: 2, Fetchers: fs[0], Submitters: fs[1], Chan: 2, IDFunc: "cert", Mode: "run", Faults: 1, Bound: 1})
		out = append(out, scenario{N: 3, Dest: "prefix1", Batch: 1, Fetchers: fs[0], Submitters: fs[1], Chan: 4, IDFunc: "index", Mode: "run", Faults: 0, Bound: 0})
	}
	// a quota that stays exhausted: every batch is retried until it is stored, however long the streak
	for _, q := range []int{3, 4, 5} {
		out = append(out, scenario{N: 3, Dest: "empty", Batch: 3, Fetchers: 1, Submitters: 1, IDFunc: "cert", Mode: "run", Faults: 1, Bound: 1, Quota: q})
	}
	// (one submitter: two back-off chains running side by side would be ordered by their unowned jitter)
	out = append(out, scenario{N: 4, Dest: "prefix1", Batch: 2, Fetchers: 2, Submitters: 1, Chan: 1, IDFunc: "index", Mode: "run", Faults: 1, Bound: 1, Quota: 4})
	out = append(out, scenario{N: 2, Dest: "empty", Batch: 2, Fetchers: 1, Submitters: 1, Chan: 1, Continuous: true, Grow: []int{1}, IDFunc: "cert", Mode: "run", Faults: 0, Bound: 1, Quota: 4})
	if th {
		for i := range out {
			out[i].Bound = 3
			out[i].Faults = 3
		}
	}
	return out
}

func TestCheck(t *testing.T) {
	r := rep.New("C20", "exploration")
	gate.ReportHangs(r)
	klog.LogToStderr(false)
	klog.SetOutput(io.Discard)
	scs := scenarios(r.Thorough())
	if f := os.Getenv("C20_ONLY"); f != "" { // debugging aid: only scenarios whose description contains the string
		var keep []scenario
		for _, sc := range scs {
			if strings.Contains(sc.String(), f) {
				keep = append(keep, sc)
			}
		}
		scs = keep
	}
	r.Rule("scenario = source size x destination state {empty, honest prefix 1/2, full, ahead of the source, 2-entry prefix of a fork} x batch 1-3 x fetchers/submitters 1-2 x channel size x identity function x one-shot / continuous with growth x Run / RunWhenMaster x restarts; per scenario every choice vector within the deviation bound over: which pending source request (get-sth, get-sth-consistency, get-entries) or destination RPC (root, AddSequencedLeaves) is answered next and with what (full, every short length, 429, 500, network error, bad STH signature, wrong consistency proof, stale root, ResourceExhausted, Internal, DeadlineExceeded), source growth, cancellation, mastership loss, restart after failure. distinct_nontrivial = distinct (scenario, stored indices, request count, run results) outcomes")
	r.Assume("the destination is the reference pre-ordered backend (first writer of an index wins, conflicts are reported per leaf); it integrates stored leaves when its root is read unless the director chooses a lagging signer",
		"back-off jitter (math/rand, up to 100%) is not owned: after a wait the director lets 1.1 s more pass so that retries differing only by jitter are pending together; no oracle depends on an instant")
	r.Set("scenarios", len(scs))
	var exec, pts, div, maxDepth atomic.Int64
	enum.Workers = 16
	done := enum.ParFor(len(scs), r.Expired, func(i int) {
		sc := scs[i]
		ex := &gate.Explorer{Name: sc.String(), Bound: sc.Bound, Run: runScenario(sc), Stop: r.Expired, Workers: 2}
		ex.OnViolation = func(v gate.Violation, picks []gate.Pick, trace []string) {
			r.Violation(v.Sig, v.Desc, map[string]any{"scenario": sc, "choices": picks, "trace": trace})
		}
		ex.Explore(t)
		exec.Add(ex.Executions.Load())
		pts.Add(ex.Points.Load())
		div.Add(ex.Divergent.Load())
		for {
			d, m := ex.MaxDepth.Load(), maxDepth.Load()
			if d <= m || maxDepth.CompareAndSwap(m, d) {
				break
			}
		}
		r.Eval(int(ex.Executions.Load()))
		for _, o := range ex.OutcomeList(1 << 30) {
			r.Nontrivial(sc.String() + o[:strings.LastIndex(o, " x")])
		}
		if ex.Capped.Load() {
			r.Capped("deadline reached in scenario " + sc.String())
		}
		if i%9 == 2 && r.WantSample() {
			r.Sample(map[string]any{"scenario": sc.String(), "schedules": ex.Executions.Load(), "outcomes": ex.OutcomeList(4), "trace": ex.SampleTrace()})
		}
		if fl := ex.Flaky(); len(fl) > 0 {
			r.Set("divergence_example", fl)
		}
	})
	if !done {
		r.Capped("deadline reached before all scenarios were explored")
	}
	_ = enum.Workers
	if div.Load() > 0 {
		r.Capped(fmt.Sprintf("%d divergent branches not explored", div.Load()))
	}
	r.Set("schedules", exec.Load())
	r.Set("decision_points", pts.Load())
	r.Set("max_depth", maxDepth.Load())
	r.Set("divergent_branches", div.Load())
	if os.Getenv("C20_ONLY") == "" {
		bigIndices(t, r)
	}
	r.Finish()
}
