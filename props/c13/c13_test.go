//go:build go1.25

//go:debug randseednop=0

// C13 — submission retries follow the server's pacing and stop when they should.
//
// Engine A: every order and content of server answers, caller cancellations and
// waits, up to a deviation bound, for 1-2 callers sharing one JSON client, under
// virtual time. The RoundTripper is a gate; the director decides which pending
// request is answered next and with what.
package c13

import (
	"bytes"
	"context"
	"encoding/base64"
	"encoding/json"
	"errors"
	"fmt"
	"io"
	"math/rand"
	"net/http"
	"sort"
	"strconv"
	"strings"
	"sync"
	"testing"
	"testing/synctest"
	"time"

	"verif/engine/gate"
	"verif/engine/rep"

	ct "github.com/google/certificate-transparency-go"
	"github.com/google/certificate-transparency-go/client"
	"github.com/google/certificate-transparency-go/jsonclient"
	"github.com/google/certificate-transparency-go/tls"
)

// ---- scenario ----------------------------------------------------------------

type scenario struct {
	Name      string
	API       string // "json" (PostAndParseWithRetry) or "logclient" (LogClient.AddChain)
	Pre       bool   // logclient: callers with an odd index use AddPreChain
	Callers   int
	Ctx       []string // per caller: "none", "cancel", "deadline2s", "deadline10s"
	MaxBad    int      // non-ok answers offered per caller before only "ok" remains
	Bound     int
	Unlimited bool
	Default   string // name of the answer given at cost 0 ("" = 200ok): models a server that keeps failing
	Seed      int64  // != 0: the client's jitter source (math/rand) is re-seeded with it at the start of every execution, which then run one at a time
	LogGate   bool   // the client's log calls are scheduling points (answers to other callers can land between a back-off decision and the wait)
	Statuses  bool   // the menu is the parsable 200, the plain 503 and one plain answer per HTTP status of the status alphabet (every status is final unless the statement names it)
	Prompt    bool   // the server answers each request the instant it arrives (requests that differ only by jitter are not merged)
}

type answer struct {
	name    string
	status  int
	ra      string // Retry-After header: "", "2", "5", "date+3", "date-10", "junk"
	body    string // "ok", "badjson", "text"
	neterr  bool
	redir   bool
	same    bool // redir: the Location is the request's own URL
	cut     bool // the body read fails after a few bytes
	timeout bool
	big     bool // the body is about 100 kB: a legitimate size (an SCT's extensions alone may take 65535 octets, 87 kB in base64)
	viaGET  bool // answer to the GET that a redirect turned the POST into: never a success
}

// statusMenu: a parsable 200, a plain 503, and every registered (and a few unregistered) status code once, each with a
// text body (also with "Retry-After: 2", which must not turn a final status into a retried one).
var statusMenu = func() []answer {
	m := []answer{{name: "200ok", status: 200, body: "ok"}, {name: "503", status: 503, body: "text"}}
	for _, st := range []int{201, 202, 203, 204, 205, 206, 207, 226, 299, 300, 304, 305, 306, 400, 401, 402, 403, 404, 405, 406, 407, 409, 410, 411, 412, 413, 414, 415, 416, 417, 418, 421, 422, 423, 424,
		425, 426, 428, 430, 431, 451, 499, 500, 501, 502, 504, 505, 506, 507, 508, 510, 511, 520, 529, 598, 599} {
		m = append(m, answer{name: fmt.Sprint(st), status: st, body: "text"})
		if st == 502 || st == 504 || st == 425 || st == 409 || st == 202 {
			m = append(m, answer{name: fmt.Sprintf("%dra2", st), status: st, ra: "2", body: "text"})
		}
	}
	return m
}()

var menu = []answer{
	{name: "200ok", status: 200, body: "ok"},
	{name: "200badjson", status: 200, body: "badjson"},
	{name: "200empty", status: 200, body: "empty"}, // a 200 without a body does not parse either
	{name: "408", status: 408, body: "text"},
	{name: "408ra2", status: 408, ra: "2", body: "text"}, // a Retry-After on a 408 is not an instruction the statement knows: no added delay
	{name: "429", status: 429, body: "text"},
	{name: "429ra2", status: 429, ra: "2", body: "text"},
	{name: "503", status: 503, body: "text"},
	{name: "503ra5", status: 503, ra: "5", body: "text"},
	{name: "503ra0", status: 503, ra: "0", body: "text"},
	{name: "503cut", status: 503, body: "text", cut: true}, // status line and headers arrive, the connection drops inside the body: still a 503, still a transport error
	{name: "200cut", status: 200, body: "ok", cut: true},   // a 200 whose body cannot be read is not a parsable 200
	{name: "503ra010", status: 503, ra: "010", body: "text"}, // delay-seconds is 1*DIGIT: leading zeros are decimal (10 s, not octal 8)
	{name: "429ra08", status: 429, ra: "08", body: "text"},   // 8 s, not an unparsable header // a server-directed delay of nothing: still no licence to wait longer later
	{name: "429ra300", status: 429, ra: "300", body: "text"}, // more than the 128 s cap: must not stick to later answers
	{name: "503date+3", status: 503, ra: "date+3", body: "text"},
	{name: "503date-10", status: 503, ra: "date-10", body: "text"},
	{name: "503junk", status: 503, ra: "junk", body: "text"},
	{name: "400", status: 400, body: "text"},
	{name: "404", status: 404, body: "text"},
	{name: "500", status: 500, body: "text"},
	{name: "301", status: 301, redir: true, body: "text"},
	{name: "303same", status: 303, redir: true, same: true, body: "text"}, // redirect to the very URL that was posted to (cookie-bounce front ends)
	{name: "200big", status: 200, body: "ok", big: true},   // a parsable 200 is a parsable 200 at any size the protocol allows
	{name: "400big", status: 400, body: "text", big: true}, // ... and an error carries the body it came with
	{name: "neterr", neterr: true},
	{name: "nettimeout", neterr: true, timeout: true}, // a transport-level timeout (errors.Is(err, context.DeadlineExceeded)) while the caller's context is live
}

type event struct {
	caller string
	kind   string // "req", "ans", "ret", "cancel"
	t      time.Duration
	method string
	ans    *answer
	askAt  time.Duration // for ans with Retry-After: absolute virtual instant the server asked to wait for (0 = none)
	err    error
	ok     bool // ret: success
	got    string
	idx    int
	path   string
}

type recorder struct {
	mu sync.Mutex
	ev []event
}

func (r *recorder) add(e event) {
	e.t = gate.Now()
	r.mu.Lock()
	r.ev = append(r.ev, e)
	r.mu.Unlock()
}

type gatedRT struct {
	env *gate.Env
	rec *recorder
	api string
}

type rtInfo struct {
	caller string
	method string
}

func callerOf(req *http.Request, body []byte) string {
	if c := req.URL.Query().Get("c"); c != "" {
		return c
	}
	if strings.HasPrefix(req.URL.Path, "/log/caller") {
		return strings.TrimPrefix(req.URL.Path, "/log/caller")
	}
	// logclient: the chain's single "certificate" is the caller's name
	var r ct.AddChainRequest
	if json.Unmarshal(body, &r) == nil && len(r.Chain) == 1 {
		return string(r.Chain[0])
	}
	return "?"
}

var okSCTBig = func() string {
	ds, _ := tls.Marshal(ct.DigitallySigned{Algorithm: tls.SignatureAndHashAlgorithm{Hash: tls.SHA256, Signature: tls.ECDSA}, Signature: []byte{1, 2, 3}})
	b, _ := json.Marshal(ct.AddChainResponse{SCTVersion: ct.V1, ID: bytes.Repeat([]byte{7}, 32), Timestamp: 1234, Extensions: base64.StdEncoding.EncodeToString(bytes.Repeat([]byte{0xe7}, 65535)), Signature: ds})
	return string(b)
}()

// bodyFor is the body the server sends with answer a to caller c.
func bodyFor(a *answer, api, c string) string {
	b := "some text"
	if a.big {
		b = strings.Repeat("some text ", 10000)
	}
	switch a.body {
	case "ok":
		switch {
		case api == "logclient" && a.big:
			b = okSCTBig
		case api == "logclient":
			b = okSCT
		case a.big:
			b = `{"value":"` + c + `","padding":"` + strings.Repeat("p", 100000) + `"}`
		default:
			b = `{"value":"` + c + `"}`
		}
	case "badjson":
		b = `{"value": tru`
	case "empty":
		b = ""
	}
	return b
}

var okSCT = func() string {
	ds, _ := tls.Marshal(ct.DigitallySigned{Algorithm: tls.SignatureAndHashAlgorithm{Hash: tls.SHA256, Signature: tls.ECDSA}, Signature: []byte{1, 2, 3}})
	b, _ := json.Marshal(ct.AddChainResponse{SCTVersion: ct.V1, ID: bytes.Repeat([]byte{7}, 32), Timestamp: 1234, Extensions: "", Signature: ds})
	return string(b)
}()

func (g *gatedRT) RoundTrip(req *http.Request) (*http.Response, error) {
	var body []byte
	if req.Body != nil {
		body, _ = io.ReadAll(req.Body)
		req.Body.Close()
	}
	c := callerOf(req, body)
	g.rec.add(event{caller: c, kind: "req", method: req.Method, path: req.URL.Path})
	// 1 ms of transport latency: a retry sent with zero jitter then needs the clock to move, like every
	// other retry, so the shape of the decision tree does not depend on the (unowned) jitter value
	lat := time.NewTimer(time.Millisecond)
	select {
	case <-lat.C:
	case <-req.Context().Done():
		lat.Stop()
		return nil, req.Context().Err()
	}
	v, err := g.env.AskCtx(req.Context(), req.Method+" caller="+c, "http", rtInfo{c, req.Method})
	if err != nil {
		return nil, err
	}
	if _, ok := v.(gate.Aborted); ok {
		return nil, errors.New("harness shut down")
	}
	a := v.(answer)
	a.viaGET = req.Method != http.MethodPost
	ev := event{caller: c, kind: "ans", ans: &a, method: req.Method}
	now := time.Now()
	h := http.Header{}
	switch a.ra {
	case "2":
		h.Set("Retry-After", "2")
		ev.askAt = gate.Now() + 2*time.Second
	case "0":
		h.Set("Retry-After", "0")
	case "010":
		h.Set("Retry-After", "010")
		ev.askAt = gate.Now() + 10*time.Second
	case "08":
		h.Set("Retry-After", "08")
		ev.askAt = gate.Now() + 8*time.Second
	case "5":
		h.Set("Retry-After", "5")
		ev.askAt = gate.Now() + 5*time.Second
	case "300":
		h.Set("Retry-After", "300")
		ev.askAt = gate.Now() + 300*time.Second
	case "date+3":
		d := now.Add(3 * time.Second).UTC()
		h.Set("Retry-After", d.Format(time.RFC1123))
		ev.askAt = gate.Now() + d.Truncate(time.Second).Sub(now)
	case "date-10":
		h.Set("Retry-After", now.Add(-10*time.Second).UTC().Format(time.RFC1123))
	case "junk":
		h.Set("Retry-After", "soon")
	}
	if a.status != 429 && a.status != 503 {
		ev.askAt = 0 // a Retry-After is an instruction only with the statuses the statement pairs it with
	}
	g.rec.add(ev)
	if a.timeout {
		return nil, transportTimeout{}
	}
	if a.neterr {
		return nil, errors.New("connection reset by peer")
	}
	b := bodyFor(&a, g.api, c)
	if a.redir {
		if a.same {
			h.Set("Location", req.URL.String())
		} else {
			h.Set("Location", "/redirected?c="+c)
		}
	}
	var rbody io.ReadCloser = io.NopCloser(strings.NewReader(b))
	if a.cut {
		n := 7
		if n > len(b) {
			n = len(b)
		}
		rbody = &cutBody{data: []byte(b[:n])}
	}
	return &http.Response{StatusCode: a.status, Status: fmt.Sprintf("%d %s", a.status, http.StatusText(a.status)), Header: h,
		Body: rbody, Request: req, Proto: "HTTP/1.1", ProtoMajor: 1, ProtoMinor: 1}, nil
}

// cutBody delivers a few bytes and then fails like a connection that dropped.
type cutBody struct {
	data []byte
	off  int
}

func (c *cutBody) Read(p []byte) (int, error) {
	if c.off >= len(c.data) {
		return 0, io.ErrUnexpectedEOF
	}
	n := copy(p, c.data[c.off:])
	c.off += n
	return n, nil
}
func (c *cutBody) Close() error { return nil }

// transportTimeout mimics net/http's per-attempt timeout errors: a net.Error with
// Timeout() == true that also matches context.DeadlineExceeded under errors.Is.
type transportTimeout struct{}

func (transportTimeout) Error() string        { return "net/http: timeout awaiting response headers" }
func (transportTimeout) Timeout() bool        { return true }
func (transportTimeout) Temporary() bool      { return true }
func (transportTimeout) Is(target error) bool { return target == context.DeadlineExceeded }

// gatedLog makes the client's log calls scheduling points: the client logs between deciding on a back-off and starting
// to wait it out, and what another submission of the same client does in that gap must not shorten the wait.
type gatedLog struct{ env *gate.Env }

func (g gatedLog) Printf(f string, a ...interface{}) {
	g.env.Ask("client logs: "+strings.SplitN(fmt.Sprintf(f, a...), ",", 2)[0], "log", nil)
}

func logPending(pend []*gate.Pending) bool {
	for _, p := range pend {
		if p.Kind == "log" {
			return true
		}
	}
	return false
}

type nolog struct{}

func (nolog) Printf(string, ...interface{}) {}

type caller struct {
	name   string
	ctx    context.Context
	cancel context.CancelFunc
	kind   string
	done   bool
	bad    int           // non-ok answers so far
	endAt  time.Duration // virtual instant the context ended (cancel or deadline); -1 = not yet / never
}

func runScenario(sc scenario) func(t *testing.T, x *gate.Exec) {
	return func(t *testing.T, x *gate.Exec) {
		env := gate.NewEnv()
		rec := &recorder{}
		if sc.Seed != 0 {
			rand.Seed(sc.Seed)
		}
		rt := &gatedRT{env: env, rec: rec, api: sc.API}
		hc := &http.Client{Transport: rt}
		var jc *jsonclient.JSONClient
		var lc *client.LogClient
		var err error
		if sc.API == "logclient" {
			var lg jsonclient.Logger = nolog{}
			if sc.LogGate {
				lg = gatedLog{env}
			}
			lc, err = client.New("http://log.example/log", hc, jsonclient.Options{Logger: lg})
		} else {
			var lg jsonclient.Logger = nolog{}
			if sc.LogGate {
				lg = gatedLog{env}
			}
			jc, err = jsonclient.New("http://log.example/log", hc, jsonclient.Options{Logger: lg})
		}
		if err != nil {
			x.Violation("harness", "client construction: %v", err)
			return
		}
		callers := make([]*caller, sc.Callers)
		var mu sync.Mutex
		for i := range callers {
			c := &caller{name: string(rune('A' + i)), kind: sc.Ctx[i], endAt: -1}
			switch c.kind {
			case "none":
				c.ctx, c.cancel = context.WithCancel(context.Background()) // cancel only used for teardown
			// the caller's contexts end with a cause of the caller's own (context.WithCancelCause / WithTimeoutCause):
			// what the call returns is the context's error (Canceled / DeadlineExceeded), not the cause
			case "cancel":
				var cc context.CancelCauseFunc
				c.ctx, cc = context.WithCancelCause(context.Background())
				c.cancel = func() { cc(errors.New("the caller is shutting down")) }
			case "deadline2s":
				c.ctx, c.cancel = context.WithTimeoutCause(context.Background(), 2*time.Second, errors.New("the caller's submission budget is used up"))
				c.endAt = gate.Now() + 2*time.Second
			case "deadline10s":
				c.ctx, c.cancel = context.WithTimeoutCause(context.Background(), 10*time.Second, errors.New("the caller's submission budget is used up"))
				c.endAt = gate.Now() + 10*time.Second
			}
			callers[i] = c
			go func() {
				var err error
				got := ""
				if lc != nil {
					var sct *ct.SignedCertificateTimestamp
					if sc.Pre && i%2 == 1 || sc.Pre && sc.Callers == 1 {
						sct, err = lc.AddPreChain(c.ctx, []ct.ASN1Cert{{Data: []byte(c.name)}})
					} else {
						sct, err = lc.AddChain(c.ctx, []ct.ASN1Cert{{Data: []byte(c.name)}})
					}
					if err == nil {
						got = fmt.Sprintf("sct ts=%d", sct.Timestamp)
					} else if sct != nil {
						got = "non-nil result with error"
					}
				} else {
					var rsp struct{ Value string }
					var hr *http.Response
					hr, _, err = jc.PostAndParseWithRetry(c.ctx, "/caller"+c.name, map[string]string{"x": "y"}, &rsp)
					if err == nil {
						got = fmt.Sprintf("status=%d method=%s value=%s", hr.StatusCode, hr.Request.Method, rsp.Value)
					} else if hr != nil {
						got = "non-nil response with error"
					}
				}
				rec.add(event{caller: c.name, kind: "ret", err: err, ok: err == nil, got: got})
				mu.Lock()
				c.done = true
				mu.Unlock()
				env.Notify()
			}()
		}
		allDone := func() bool {
			mu.Lock()
			defer mu.Unlock()
			for _, c := range callers {
				if !c.done {
					return false
				}
			}
			return true
		}
		isDone := func(c *caller) bool { mu.Lock(); defer mu.Unlock(); return c.done }
		byName := func(n string) *caller {
			for _, c := range callers {
				if c.name == n {
					return c
				}
			}
			return nil
		}
		stuck := false
		for steps := 0; ; steps++ {
			synctest.Wait()
			pend := env.Pending()
			if allDone() && len(pend) == 0 {
				break
			}
			if steps > 60+8*sc.MaxBad*sc.Callers {
				x.Violation("horizon", "scenario did not finish within %d decision points", 60+8*sc.MaxBad*sc.Callers)
				break
			}
			type act struct {
				alt gate.Alt
				do  func()
			}
			var acts []act
			for pi, p := range pend {
				if p.Kind == "log" {
					cost := 0
					if pi > 0 {
						cost = 1
					}
					acts = append(acts, act{gate.Alt{Label: p.Key + " <- done", Cost: cost}, func() { env.Answer(p, nil) }})
					continue
				}
				info := p.Info.(rtInfo)
				c := byName(info.caller)
				m := menu
				if info.method != http.MethodPost || c == nil || c.bad >= sc.MaxBad {
					m = menu[:1]
				} else if sc.Statuses {
					m = statusMenu
				} else if sc.Default != "" {
					m = nil
					for _, a := range menu {
						if a.name == sc.Default {
							m = append([]answer{a}, m...)
						} else {
							m = append(m, a)
						}
					}
				}
				for ai, a := range m {
					cost := 0
					if pi > 0 {
						cost++
					}
					if ai > 0 {
						cost++
					}
					acts = append(acts, act{gate.Alt{Label: p.Key + " <- " + a.name, Cost: cost}, func() {
						if a.name != "200ok" && c != nil {
							c.bad++
						}
						env.Answer(p, a)
					}})
				}
			}
			if len(pend) == 0 {
				acts = append(acts, act{gate.Alt{Label: "tick", Cost: 0}, func() {
					settle := 300 * time.Millisecond
					if sc.Prompt {
						settle = 0
					}
					if !env.WaitActivity(1000*time.Second, settle) {
						stuck = true
					}
				}})
			} else if logPending(pend) {
				// a log call takes no time: while one is held, only answers and its release are on offer
			} else if sc.Callers > 1 || strings.HasPrefix(sc.Ctx[0], "deadline") {
				for _, d := range []time.Duration{time.Second, 3 * time.Second} {
					acts = append(acts, act{gate.Alt{Label: fmt.Sprintf("server-slow %v", d), Cost: 1}, func() { time.Sleep(d) }})
				}
			}
			for _, c := range callers {
				if c.kind != "cancel" || c.endAt >= 0 || isDone(c) {
					continue
				}
				delays := []time.Duration{0}
				if len(pend) == 0 {
					delays = []time.Duration{0, time.Millisecond, time.Second, 3 * time.Second}
				}
				for _, d := range delays {
					acts = append(acts, act{gate.Alt{Label: fmt.Sprintf("cancel %s after %v", c.name, d), Cost: 1}, func() {
						time.Sleep(d)
						c.endAt = gate.Now()
						rec.add(event{caller: c.name, kind: "cancel"})
						c.cancel()
					}})
				}
			}
			alts := make([]gate.Alt, len(acts))
			for i := range acts {
				alts[i] = acts[i].alt
			}
			acts[x.Choose(alts)].do()
			if stuck {
				x.Violation("no-progress", "callers still running but no request, return or timer activity for 1000 s of virtual time")
				break
			}
		}
		for _, c := range callers {
			c.cancel()
		}
		env.Shutdown()
		synctest.Wait()
		oracle(sc, x, rec, callers)
	}
}

// ---- oracle ------------------------------------------------------------------

const jitter = 250 * time.Millisecond
const cap128 = 128 * time.Second

func retryable(a *answer) bool {
	return a.neterr || a.cut || a.viaGET || (a.status == 200 && (a.body == "badjson" || a.body == "empty")) || a.status == 408 || a.status == 429 || a.status == 503 || a.redir
}

func oracle(sc scenario, x *gate.Exec, rec *recorder, callers []*caller) {
	rec.mu.Lock()
	evs := append([]event{}, rec.ev...)
	rec.mu.Unlock()
	sort.SliceStable(evs, func(i, j int) bool { return evs[i].t < evs[j].t })
	var out []string
	for i := range evs {
		evs[i].idx = i
	}
	for _, c := range callers {
		var mine []event
		for _, e := range evs {
			if e.caller == c.name {
				mine = append(mine, e)
			}
		}
		var sum []string
		var ret *event
		for i := range mine {
			e := &mine[i]
			switch e.kind {
			case "ans":
				sum = append(sum, e.ans.name)
			case "ret":
				ret = e
			}
		}
		// context end instant (deadline contexts end by themselves)
		ended := c.endAt >= 0 && (ret == nil || c.endAt <= ret.t)
		if ret == nil {
			x.Violation("no-return", "caller %s never returned (answers %v)", c.name, sum)
			continue
		}
		// a submission goes to the endpoint of its kind, every time
		if sc.API == "logclient" {
			ci := int(c.name[0] - 'A')
			wantPath := "/log/ct/v1/add-chain"
			if sc.Pre && (ci%2 == 1 || sc.Callers == 1) {
				wantPath = "/log/ct/v1/add-pre-chain"
			}
			for _, e := range mine {
				if e.kind == "req" && e.method == http.MethodPost && e.path != wantPath {
					x.Violation("submission-sent-to-wrong-endpoint", "caller %s: POST to %s, want %s", c.name, e.path, wantPath)
				}
			}
		}
		// walk the per-caller timeline
		var lastAns *event
		for i := range mine {
			e := &mine[i]
			switch e.kind {
			case "req":
				if lastAns != nil {
					gap := e.t - lastAns.t
					a := lastAns.ans
					if !retryable(a) && e.method == http.MethodPost {
						x.Violation("retry-after-final-status", "caller %s: a new request followed answer %s, which must end the call", c.name, a.name)
					}
					if a.status == 200 && a.body == "ok" && !a.cut && lastAns.method == http.MethodPost {
						x.Violation("request-after-success", "caller %s: a request was sent after the parsable 200", c.name)
					}
					if a.redir {
						break // the GET that follows a redirect is the HTTP client's, not a retry
					}
					// lower bound: never before the server-supplied Retry-After
					if lastAns.askAt > 0 && e.t < lastAns.askAt {
						x.Violation("retry-before-retry-after", "caller %s: answer %s at %v asked to wait until %v but the next request went out at %v", c.name, a.name, lastAns.t, lastAns.askAt, e.t)
					}
					// the pacing is the client's, not the call's: a Retry-After that the server gave to another submission
					// of this client strictly before this caller's last answer (so the shared back-off already holds it:
					// handling an answer takes no virtual time) binds this retry too, whatever status it follows
					for _, o := range evs {
						if o.kind != "ans" || o.caller == c.name || o.askAt == 0 || o.ans.cut || o.ans.viaGET || o.method != http.MethodPost ||
							(o.ans.status != 503 && o.ans.status != 429) || o.t >= lastAns.t || e.t >= o.askAt {
							continue
						}
						live := true
						for _, oc := range callers {
							if oc.name == o.caller && oc.endAt >= 0 && oc.endAt <= o.t {
								live = false // that submission had already been abandoned; its answer was never looked at
							}
						}
						if live {
							x.Violation("retry-before-shared-retry-after", "caller %s: the client was asked at %v (answer %s to caller %s) to wait until %v, but this caller's retry after %s went out at %v", c.name, o.t, o.ans.name, o.caller, o.askAt, a.name, e.t)
						}
					}
					// upper bound: the 128 s cap (+ jitter) unless some answer seen by this client asked for more
					limit := cap128
					for _, o := range evs {
						if o.kind == "ans" && o.idx < e.idx && o.askAt > 0 && o.askAt-lastAns.t > limit {
							limit = o.askAt - lastAns.t
						}
					}
					if gap >= limit+jitter {
						x.Violation("retry-later-than-cap", "caller %s: waited %v after %s (limit %v + jitter)", c.name, gap, a.name, limit)
					}
					// 408: no added delay. Whatever wait follows must already have been pending
					// from an earlier retryable answer of this client.
					if a.status == 408 && gap >= jitter {
						pendingUntil := time.Duration(-1)
						for _, o := range evs {
							// (when the client's log calls are scheduling points, this caller may have been held at its "retrying
							// immediately" log line while another submission's failure armed the back-off: any failure answered
							// before this retry went out may be what it waited for)
							if o.kind == "ans" && (o.idx < lastAns.idx || (sc.LogGate && o.idx < e.idx)) && retryable(o.ans) && o.ans.status != 408 && !o.ans.redir {
								u := o.t + cap128
								if o.askAt > u {
									u = o.askAt
								}
								if u > pendingUntil {
									pendingUntil = u
								}
							}
						}
						if e.t >= pendingUntil+jitter {
							x.Violation("delay-after-408", "caller %s: waited %v after a 408 with nothing pending", c.name, gap)
						}
					}
				}
			case "ans":
				lastAns = e
			}
		}
		// the return
		switch {
		case ret.ok:
			if lastAns == nil || !(lastAns.ans.status == 200 && lastAns.ans.body == "ok" && !lastAns.ans.cut && lastAns.method == http.MethodPost) {
				nm := "none"
				if lastAns != nil {
					nm = lastAns.method + " " + lastAns.ans.name
				}
				x.Violation("success-without-parsable-200", "caller %s returned success but the last answer was %s", c.name, nm)
			} else if ret.t != lastAns.t {
				x.Violation("late-success", "caller %s returned success %v after the 200", c.name, ret.t-lastAns.t)
			}
			want := "status=200 method=POST value=" + c.name
			if sc.API == "logclient" {
				want = "sct ts=1234"
			}
			if ret.got != want {
				x.Violation("wrong-result", "caller %s got %q, want %q", c.name, ret.got, want)
			}
		default:
			if ret.got != "" {
				x.Violation("result-with-error", "caller %s: %s", c.name, ret.got)
			}
			var re jsonclient.RspError
			isRsp := errors.As(ret.err, &re)
			ctxErr := errors.Is(ret.err, context.Canceled) || errors.Is(ret.err, context.DeadlineExceeded)
			final := lastAns != nil && !retryable(lastAns.ans) && !(lastAns.ans.status == 200 && lastAns.ans.body == "ok" && !lastAns.ans.cut)
			switch {
			case final && lastAns.t == ret.t && (!ended || c.endAt > lastAns.t || !ctxErr):
				// ended by a non-retryable status: must carry status and body
				if !isRsp || re.StatusCode != lastAns.ans.status || string(re.Body) != bodyFor(lastAns.ans, sc.API, c.name) {
					x.Violation("final-status-error-shape", "caller %s: answer %s must be returned as RspError{status, body}; got %T %v", c.name, lastAns.ans.name, ret.err, ret.err)
				}
			case ended:
				want := context.Canceled
				if strings.HasPrefix(c.kind, "deadline") {
					want = context.DeadlineExceeded
				}
				if !errors.Is(ret.err, want) {
					x.Violation("wrong-context-error", "caller %s: context ended (%s) but the call returned %T %v", c.name, c.kind, ret.err, ret.err)
				}
				if ret.t != c.endAt && !(final && ret.t < c.endAt) {
					x.Violation("late-after-context-end", "caller %s: context ended at %v, call returned at %v", c.name, c.endAt, ret.t)
				}
			default:
				x.Violation("unexplained-error", "caller %s returned %T %v although its context is live and the last answer was %v", c.name, ret.err, ret.err, sum)
			}
		}
		// requests after the context ended: at most one, failing immediately
		if ended {
			n := 0
			for _, e := range mine {
				if e.kind == "req" && e.t > c.endAt {
					n++
				}
			}
			if n > 0 {
				x.Violation("requests-after-context-end", "caller %s sent %d request(s) after its context ended", c.name, n)
			}
		}
		o := "ok"
		if !ret.ok {
			o = fmt.Sprintf("err(%T)", errors.Unwrap(ret.err))
			var re jsonclient.RspError
			if errors.As(ret.err, &re) {
				o = "rsp" + strconv.Itoa(re.StatusCode)
			} else if errors.Is(ret.err, context.Canceled) {
				o = "canceled"
			} else if errors.Is(ret.err, context.DeadlineExceeded) {
				o = "deadline"
			}
		}
		out = append(out, c.name+":"+strings.Join(sum, ",")+"=>"+o)
	}
	x.Outcome = strings.Join(out, " | ")
}

// ---- driver ------------------------------------------------------------------

func TestCheck(t *testing.T) {
	r := rep.New("C13", "exploration")
	gate.ReportHangs(r)
	seed := r.Seed()
	if seed == 0 {
		seed = 1
	}
	rand.Seed(seed)
	_ = base64.StdEncoding
	th := r.Thorough()
	b1, b2, k := 4, 3, 3
	if th {
		b1, b2, k = 6, 4, 5
	}
	scs := []scenario{
		{Name: "1 caller, json, cancellable", API: "json", Callers: 1, Ctx: []string{"cancel"}, MaxBad: k, Bound: b1},
		{Name: "1 caller, json, deadline 2s", API: "json", Callers: 1, Ctx: []string{"deadline2s"}, MaxBad: k, Bound: b1},
		{Name: "1 caller, json, deadline 10s", API: "json", Callers: 1, Ctx: []string{"deadline10s"}, MaxBad: k, Bound: b1},
		{Name: "1 caller, LogClient.AddChain, cancellable", API: "logclient", Callers: 1, Ctx: []string{"cancel"}, MaxBad: k, Bound: b1},
		{Name: "2 callers sharing a client, json", API: "json", Callers: 2, Ctx: []string{"cancel", "none"}, MaxBad: k - 1, Bound: b2},
		{Name: "2 callers sharing a LogClient, one with deadline", API: "logclient", Callers: 2, Ctx: []string{"deadline10s", "cancel"}, MaxBad: k - 1, Bound: b2},
		{Name: "1 caller, LogClient.AddPreChain, deadline 10s", API: "logclient", Pre: true, Callers: 1, Ctx: []string{"deadline10s"}, MaxBad: k, Bound: b1 - 1},
		{Name: "2 callers sharing a LogClient, AddChain and AddPreChain", API: "logclient", Pre: true, Callers: 2, Ctx: []string{"cancel", "none"}, MaxBad: k - 1, Bound: b2 - 1},
	}
	// a server that keeps failing: the exponential window reaches its 128 s cap, and callers sharing
	// the client keep being woken by each other's failures (an infinite response sequence cut at
	// MaxBad answers per caller)
	kb, bb := 11, 1
	if th {
		kb, bb = 13, 2
	}
	scs = append(scs,
		scenario{Name: "1 caller, json, server keeps answering 503", API: "json", Callers: 1, Ctx: []string{"cancel"}, MaxBad: kb, Bound: bb, Default: "503"},
		scenario{Name: "2 callers sharing a client, server keeps answering 503", API: "json", Callers: 2, Ctx: []string{"none", "none"}, MaxBad: kb, Bound: bb, Default: "503"},
		scenario{Name: "2 callers sharing a LogClient, network keeps failing", API: "logclient", Callers: 2, Ctx: []string{"none", "none"}, MaxBad: kb, Bound: bb - 1 + 1, Default: "neterr"},
		// the same with a server that answers at once: the caller whose jitter is smaller is answered
		// before the others wake (which caller that is, is not owned; the bound must hold for either)
		scenario{Name: "2 callers sharing a client, prompt server keeps answering 503", API: "json", Callers: 2, Ctx: []string{"none", "none"}, MaxBad: kb, Bound: bb - 1, Default: "503", Prompt: true, Seed: 1},
		scenario{Name: "2 callers sharing a client, prompt server keeps answering 503, other jitter", API: "json", Callers: 2, Ctx: []string{"none", "none"}, MaxBad: kb, Bound: bb - 1, Default: "503", Prompt: true, Seed: 7},
		scenario{Name: "3 callers sharing a LogClient, prompt server, network keeps failing", API: "logclient", Callers: 3, Ctx: []string{"none", "none", "none"}, MaxBad: kb - 2, Bound: bb - 1, Default: "neterr", Prompt: true, Seed: 3},
		scenario{Name: "2 callers sharing a client, json, log calls are scheduling points", API: "json", Callers: 2, Ctx: []string{"none", "deadline10s"}, MaxBad: 2, Bound: 2, LogGate: true},
		scenario{Name: "1 caller, json, every status code", API: "json", Callers: 1, Ctx: []string{"deadline10s"}, MaxBad: 3, Bound: 2, Statuses: true},
		scenario{Name: "1 caller, LogClient.AddChain, every status code", API: "logclient", Callers: 1, Ctx: []string{"cancel"}, MaxBad: 2, Bound: 1, Statuses: true},
		scenario{Name: "1 caller, json, server keeps answering 503 with Retry-After: 0", API: "json", Callers: 1, Ctx: []string{"cancel"}, MaxBad: kb, Bound: bb, Default: "503ra0"},
		scenario{Name: "3 callers sharing a client, server keeps answering 429", API: "json", Callers: 3, Ctx: []string{"none", "none", "none"}, MaxBad: kb - 2, Bound: bb - 1, Default: "429"})
	r.Rule("for each scenario, every choice vector of total deviation cost <= bound (a deviation = answering a pending request other than the canonically first, any answer other than a parsable 200 out of a 27-answer menu, a slow server, a cancellation at one of 4 instants); executions run to completion under virtual time. distinct_nontrivial = distinct observed outcomes (per-caller answer sequence and result)")
	r.Assume("client jitter (math/rand, 0..249 ms) is not owned: oracles use only the bounds the property states; requests arriving within 300 ms of each other are presented together",
		"interleavings are explored at the granularity of HTTP round trips; lock-level interleavings inside the shared backoff are covered by the free-running race pass")
	var summary []map[string]any
	for _, sc := range scs {
		ex := &gate.Explorer{Name: sc.Name, Bound: sc.Bound, Run: runScenario(sc), Stop: r.Expired}
		if sc.Seed != 0 {
			ex.Workers = 1
		}
		ex.OnViolation = func(v gate.Violation, picks []gate.Pick, trace []string) {
			r.Violation(v.Sig, sc.Name+": "+v.Desc, map[string]any{"scenario": sc, "choices": picks, "trace": trace})
		}
		ex.Explore(t)
		r.Eval(int(ex.Executions.Load()))
		for _, o := range ex.OutcomeList(1 << 30) {
			r.Nontrivial(sc.Name + o[:strings.LastIndex(o, " x")])
		}
		if ex.Capped.Load() {
			r.Capped("deadline reached in scenario " + sc.Name)
		}
		if n := ex.Divergent.Load(); n > 0 {
			r.Capped(fmt.Sprintf("%d divergent branches in scenario %s (unowned jitter); not explored", n, sc.Name))
		}
		summary = append(summary, map[string]any{"scenario": sc.Name, "bound_completed": sc.Bound, "schedules": ex.Executions.Load(),
			"decision_points": ex.Points.Load(), "max_depth": ex.MaxDepth.Load(), "distinct_outcomes": ex.Outcomes(),
			"divergent_branches": ex.Divergent.Load(), "replays": ex.Replays.Load(), "flaky": ex.Flaky()})
		if tr := ex.SampleTrace(); tr != nil && r.WantSample() {
			r.Sample(map[string]any{"scenario": sc.Name, "trace": tr})
		}
		if ol := ex.OutcomeList(4); len(ol) > 0 && r.WantSample() {
			r.Sample(map[string]any{"scenario": sc.Name, "outcomes": ol})
		}
	}
	r.Set("scenarios", summary)
	r.Finish()
}
