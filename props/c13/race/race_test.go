//go:build go1.25

// Engine D for C13: the scenario bodies of the exploration (callers sharing one
// JSON client, scripted answers) run free (no director hand-offs) under the race
// detector, in bubbles only to make the back-off waits cost no wall time.
package race

import (
	"context"
	"errors"
	"fmt"
	"io"
	"net/http"
	"strings"
	"sync"
	"testing"
	"testing/synctest"
	"time"

	"github.com/google/certificate-transparency-go/jsonclient"
)

// rt answers by caller (taken from the URL path) with per-caller counters, so the
// harness itself adds no synchronisation between callers: callers 0 and 1 see
// back-off answers (they write the shared back-off state), callers 2 and 3 only
// 408s (they only read it).
type rt struct{ n [4]int }

func (r *rt) RoundTrip(req *http.Request) (*http.Response, error) {
	c := int(req.URL.Path[len(req.URL.Path)-1] - '0')
	r.n[c]++
	k := r.n[c]
	mk := func(st int, body string, h http.Header) *http.Response {
		return &http.Response{StatusCode: st, Status: fmt.Sprint(st), Header: h, Body: io.NopCloser(strings.NewReader(body)), Request: req}
	}
	if c >= 2 {
		if k < 6 {
			return mk(408, "x", http.Header{}), nil
		}
		return mk(200, `{"value":"ok"}`, http.Header{}), nil
	}
	switch k % 6 {
	case 0:
		return nil, errors.New("reset")
	case 1:
		return mk(503, "x", http.Header{"Retry-After": {"1"}}), nil
	case 2:
		return mk(429, "x", http.Header{}), nil
	case 3:
		return mk(200, "{bad", http.Header{}), nil
	}
	return mk(200, `{"value":"ok"}`, http.Header{}), nil
}

type nolog struct{}

func (nolog) Printf(string, ...interface{}) {}

func TestRacePass(t *testing.T) {
	runs := 0
	for it := 0; it < 300; it++ {
		synctest.Test(t, func(t *testing.T) {
			jc, err := jsonclient.New("http://x/log", &http.Client{Transport: &rt{}}, jsonclient.Options{Logger: nolog{}})
			if err != nil {
				t.Fatal(err)
			}
			var wg sync.WaitGroup
			for c := 0; c < 4; c++ {
				wg.Add(1)
				go func() {
					defer wg.Done()
					ctx, cancel := context.WithTimeout(context.Background(), time.Duration(1+c*3)*time.Second)
					defer cancel()
					var rsp struct{ Value string }
					jc.PostAndParseWithRetry(ctx, fmt.Sprintf("/p%d", c), map[string]int{"c": c}, &rsp)
				}()
			}
			wg.Wait()
		})
		runs++
	}
	fmt.Printf("RACE-PASS runs=%d\n", runs)
}
