//go:build verif

// C02 — only chains that lead, in submitted order, to a trusted root are admitted.
//
// Engine B (bounded-exhaustive enumeration). A certificate hierarchy is built
// from explicit templates (ref/pki); every submitted sequence within one
// (thorough: two) perturbations of every valid path is crossed with log
// configurations and pushed through ctfe.ValidateChain + ctfe.IsPrecertificate
// and through the add-chain / add-pre-chain handlers of a real front end
// instance (ref/fe over ref/reflog). The oracle is the admission predicate
// evaluated on template metadata only (who signed whom with which key, name
// bytes, CA bits, position, pool membership, extension lists); no parsed
// certificate is ever consulted by it.
package c02

import (
	"bytes"
	"flag"
	"fmt"
	"io"
	"regexp"
	"strings"
	"testing"
	"time"

	"verif/engine/enum"
	"verif/engine/rep"
	"verif/ref/fe"
	"verif/ref/pki"
	"verif/ref/reflog"

	"github.com/google/certificate-transparency-go/asn1"
	"github.com/google/certificate-transparency-go/trillian/ctfe"
	"github.com/google/certificate-transparency-go/trillian/ctfe/configpb"
	"github.com/google/certificate-transparency-go/x509"
	"github.com/google/certificate-transparency-go/x509util"
	"github.com/google/trillian"
	"k8s.io/klog/v2"
)

var libEKU = map[string]x509.ExtKeyUsage{"server": x509.ExtKeyUsageServerAuth, "client": x509.ExtKeyUsageClientAuth, "ct": x509.ExtKeyUsageCertificateTransparency}

// instantiate turns a symbolic option set into library validation options for a leaf with the given NotAfter.
func instantiate(o optSpec, na time.Time, pool *x509util.PEMCertPool) (ctfe.CertValidationOpts, []asn1.ObjectIdentifier) {
	var start, limit *time.Time
	if o.win.start != nil {
		t := na.Add(*o.win.start)
		start = &t
	}
	if o.win.limit != nil {
		t := na.Add(*o.win.limit)
		limit = &t
	}
	var ekus []x509.ExtKeyUsage
	for _, e := range o.eku {
		ekus = append(ekus, libEKU[e])
	}
	v := ctfe.NewCertValidationOpts(pool, na.Add(o.exp.now), o.exp.rejExpired, o.exp.rejUnexpired, start, limit, o.onlyCA, ekus)
	var ids []asn1.ObjectIdentifier
	for _, id := range o.rej {
		ids = append(ids, asn1.ObjectIdentifier(id))
	}
	return ctfe.VerifSetRejectExt(v, ids), ids
}

type caseDesc struct {
	Base     string   `json:"base_path"`
	Ops      string   `json:"perturbation"`
	Chain    []string `json:"submitted"`
	ChainDER []string `json:"submitted_der_hex"`
	Pool     []string `json:"trusted_pool"`
	Options  string   `json:"options"`
	LeafNA   string   `json:"leaf_not_after"`
	Endpoint string   `json:"endpoint"`
	Oracle   string   `json:"oracle"`
	Library  string   `json:"library"`
}

type checker struct {
	r        *rep.R
	w        *world
	poolDER  [][]byte
	poolLbl  []string
	signer   *pki.Key
	pool     *x509util.PEMCertPool
}

var reVar = regexp.MustCompile(`[0-9]+`)

// errClass reduces an error text to a coarse, stable class.
func errClass(err error) string {
	if err == nil {
		return "ok"
	}
	s := err.Error()
	if i := strings.IndexAny(s, "(["); i > 0 {
		s = s[:i]
	}
	s = reVar.ReplaceAllString(s, "N")
	f := strings.Fields(s)
	if len(f) > 7 {
		f = f[:7]
	}
	return strings.Join(f, " ")
}

func eqPath(a, b [][]byte) bool {
	if len(a) != len(b) {
		return false
	}
	for i := range a {
		if !bytes.Equal(a[i], b[i]) {
			return false
		}
	}
	return true
}

func (c *checker) pathLabels(p [][]byte) string {
	var l []string
	for _, d := range p {
		l = append(l, c.labelOf(d))
	}
	return strings.Join(l, " > ")
}

var derLabel = map[string]string{}

func (c *checker) labelOf(d []byte) string {
	if l, ok := derLabel[string(d)]; ok {
		return l
	}
	return "unknown(" + rep.Hex(d) + ")"
}

func u24(b []byte) int { return int(b[0])<<16 | int(b[1])<<8 | int(b[2]) }

// takeVec reads a 24-bit length-prefixed opaque.
func takeVec(b []byte) (v, rest []byte, ok bool) {
	if len(b) < 3 || len(b) < 3+u24(b) {
		return nil, nil, false
	}
	return b[3 : 3+u24(b)], b[3+u24(b):], true
}

// queuedPath decodes the (leaf, chain) handed to the backend (RFC 6962 s3.4 / s4.6 layouts).
func queuedPath(lf *trillian.LogLeaf, pre bool) ([][]byte, string) {
	var out [][]byte
	ed := lf.ExtraData
	if pre {
		p, rest, ok := takeVec(ed)
		if !ok {
			return nil, "extra data: bad precertificate"
		}
		out = append(out, p)
		ed = rest
	} else {
		lv := lf.LeafValue
		if len(lv) < 12 || lv[0] != 0 || lv[1] != 0 || lv[10] != 0 || lv[11] != 0 {
			return nil, "leaf value: not a v1 timestamped x509 entry"
		}
		crt, _, ok := takeVec(lv[12:])
		if !ok {
			return nil, "leaf value: bad certificate"
		}
		out = append(out, crt)
	}
	list, rest, ok := takeVec(ed)
	if !ok || len(rest) != 0 {
		return nil, "extra data: bad chain"
	}
	for len(list) > 0 {
		var e []byte
		e, list, ok = takeVec(list)
		if !ok {
			return nil, "extra data: bad chain entry"
		}
		out = append(out, e)
	}
	return out, ""
}

type job struct {
	base base
	s    seq
	o    optSpec
}

func (c *checker) desc(j job, endpoint, oracle, lib string) caseDesc {
	d := caseDesc{Base: j.base.name + "/" + j.base.kind, Ops: j.s.ops, Options: j.o.label(), Endpoint: endpoint, Oracle: oracle, Library: lib, Pool: c.poolLbl}
	for _, it := range j.s.items {
		d.Chain = append(d.Chain, it.label)
		d.ChainDER = append(d.ChainDER, fmt.Sprintf("%x", it.raw))
	}
	if n := j.s.items[0].n; n != nil {
		d.LeafNA = n.T.NotAfter.Format(time.RFC3339)
	}
	return d
}

// run evaluates one (sequence, options) pair on the three endpoints.
func (c *checker) run(j job) {
	leaf := j.s.items[0].n
	clause, wantPath := c.w.chainPred(j.s)
	var ff []string
	kind := "none"
	na := leafNA
	if leaf != nil {
		ff = filterFails(leaf, j.o)
		kind = poisonKind(leaf)
		na = leaf.T.NotAfter
	}
	fails := len(ff)
	if clause != "" {
		fails++
	}
	validateOK := clause == "" && len(ff) == 0
	reason := clause
	if reason == "" && len(ff) > 0 {
		reason = "filter:" + ff[0]
	}
	raws := j.s.raws()
	key := j.s.label() + "|" + j.o.label()

	// --- ctfe.ValidateChain + ctfe.IsPrecertificate
	vopts, rejIDs := instantiate(j.o, na, c.pool)
	var got []*x509.Certificate
	var verr error
	c.r.Eval(1)
	pan, msg, stack := enum.Catch(func() { got, verr = ctfe.ValidateChain(raws, vopts) })
	if pan {
		c.r.Violation("validate-panic", "ctfe.ValidateChain panicked: "+msg+"\n"+stack, c.desc(j, "ValidateChain", reason, "panic"))
		return
	}
	if fails <= 1 {
		c.r.Nontrivial("V|" + key)
	}
	switch {
	case verr == nil && !validateOK:
		c.r.Violation("ValidateChain accepts, oracle rejects: "+reason,
			fmt.Sprintf("submitted [%s] (%s of %s/%s) with %s is admitted, but the predicate fails at %q", j.s.label(), j.s.ops, j.base.name, j.base.kind, j.o.label(), reason),
			c.desc(j, "ValidateChain", "reject: "+reason, "accept: "+c.pathOf(got)))
	case verr != nil && validateOK:
		c.r.Violation("ValidateChain rejects, oracle accepts: "+c.w.features(j)+" liberr="+errClass(verr),
			fmt.Sprintf("submitted [%s] (%s of %s/%s) with %s satisfies every clause of the statement but is refused: %v", j.s.label(), j.s.ops, j.base.name, j.base.kind, j.o.label(), verr),
			c.desc(j, "ValidateChain", "accept: "+c.pathLabels(wantPath), "reject: "+verr.Error()))
	case verr == nil:
		var gp [][]byte
		for _, g := range got {
			gp = append(gp, g.Raw)
		}
		if !eqPath(gp, wantPath) {
			c.r.Violation("ValidateChain path mismatch: "+c.w.features(j),
				fmt.Sprintf("submitted [%s]: returned path [%s], expected [%s]", j.s.label(), c.pathLabels(gp), c.pathLabels(wantPath)),
				c.desc(j, "ValidateChain", c.pathLabels(wantPath), c.pathLabels(gp)))
		}
		var isPre bool
		var perr error
		pan, msg, stack = enum.Catch(func() { isPre, perr = ctfe.IsPrecertificate(got[0]) })
		if pan {
			c.r.Violation("isprecertificate-panic", msg+"\n"+stack, c.desc(j, "IsPrecertificate", kind, "panic"))
		} else {
			c.checkKind(j, kind, isPre, perr)
		}
	}

	// --- the front end
	for _, pre := range []bool{false, true} {
		ep := "add-chain"
		if pre {
			ep = "add-pre-chain"
		}
		kindOK := kind != "malformed" && (kind == kPre) == pre
		want := validateOK && kindOK
		why := reason
		nf := fails
		if !kindOK {
			nf++
			if why == "" {
				if kind == "malformed" {
					why = "malformed-poison"
				} else {
					why = "kind-endpoint-mismatch"
				}
			}
		}
		if nf <= 1 {
			c.r.Nontrivial(ep + "|" + key)
		}
		c.r.Eval(1)
		be := reflog.New(1)
		f := c.frontEnd(be, vopts, rejIDs)
		var rsp fe.Resp
		pan, msg, stack := enum.Catch(func() { rsp, _ = f.AddChain(pre, raws) })
		if pan {
			c.r.Violation("frontend-panic endpoint="+ep, msg+"\n"+stack, c.desc(j, ep, why, "panic"))
			continue
		}
		q := be.CallsOf("QueueLeaf")
		lib := fmt.Sprintf("HTTP %d, %d leaves queued: %s", rsp.Status, len(q), strings.TrimSpace(string(rsp.Body)))
		if len(lib) > 300 {
			lib = lib[:300]
		}
		switch {
		case rsp.Status == 200 && !want:
			c.r.Violation(ep+" admits, oracle rejects: "+why,
				fmt.Sprintf("%s of [%s] (%s of %s/%s) with %s returns 200, but the predicate fails at %q", ep, j.s.label(), j.s.ops, j.base.name, j.base.kind, j.o.label(), why),
				c.desc(j, ep, "reject: "+why, lib))
		case rsp.Status != 200 && want:
			c.r.Violation(ep+" rejects, oracle accepts: "+c.w.features(j)+fmt.Sprintf(" status=%d", rsp.Status),
				fmt.Sprintf("%s of [%s] (%s of %s/%s) with %s satisfies the statement but gets %s", ep, j.s.label(), j.s.ops, j.base.name, j.base.kind, j.o.label(), lib),
				c.desc(j, ep, "accept: "+c.pathLabels(wantPath), lib))
		case rsp.Status != 200:
			if rsp.Status != 400 {
				c.r.Violation(fmt.Sprintf("%s rejection status %d (want 400): %s", ep, rsp.Status, why), lib, c.desc(j, ep, "HTTP 400: "+why, lib))
			}
			if len(q) != 0 {
				c.r.Violation(ep+" queues a leaf for a rejected chain: "+why, lib, c.desc(j, ep, "nothing handed on", lib))
			}
		default:
			if len(q) != 1 {
				c.r.Violation(ep+" admitted chain not handed on exactly once", lib, c.desc(j, ep, "1 QueueLeaf", lib))
				continue
			}
			gp, bad := queuedPath(q[0].Req.(*trillian.QueueLeafRequest).Leaf, pre)
			if bad != "" || !eqPath(gp, wantPath) {
				c.r.Violation(ep+" path mismatch: "+c.w.features(j),
					fmt.Sprintf("%s of [%s]: handed on [%s] %s, expected [%s]", ep, j.s.label(), c.pathLabels(gp), bad, c.pathLabels(wantPath)),
					c.desc(j, ep, c.pathLabels(wantPath), c.pathLabels(gp)+" "+bad))
			}
		}
	}
	if validateOK && c.r.WantSample() {
		c.r.Sample(map[string]any{"submitted": j.s.label(), "perturbation": j.s.ops, "options": j.o.label(), "leaf_kind": kind,
			"expected_path": c.pathLabels(wantPath), "verdict": "ValidateChain accepts; endpoint matching the leaf kind returns 200, the other 400"})
	}
}

// frontEnd builds a fresh front end instance exactly as fe.New does, but also
// passes the forbidden extension ids (fe.Config has no field for them and
// ctfe.VerifNewInstance overwrites the ones inside Validation).
func (c *checker) frontEnd(be trillian.TrillianLogClient, v ctfe.CertValidationOpts, rej []asn1.ObjectIdentifier) *fe.FE {
	rl := &fe.ReqLog{}
	inst := ctfe.VerifNewInstance(ctfe.VerifParams{
		Opts: ctfe.InstanceOptions{
			Validated:  &ctfe.ValidatedLogConfig{Config: &configpb.LogConfig{LogId: 1, Prefix: "log"}},
			Client:     be,
			Deadline:   time.Hour,
			RequestLog: rl,
		},
		Validation: v, RejectExt: rej, Signer: c.signer.Priv, TimeSource: &fe.Clock{T: time.Unix(1700000000, 0)},
	})
	return &fe.FE{Inst: inst, Log: rl, Prefix: "/log", Pool: c.pool}
}

func (c *checker) pathOf(got []*x509.Certificate) string {
	var gp [][]byte
	for _, g := range got {
		gp = append(gp, g.Raw)
	}
	return c.pathLabels(gp)
}

func (c *checker) checkKind(j job, kind string, isPre bool, perr error) {
	lib := fmt.Sprintf("isPrecert=%v err=%v", isPre, perr)
	switch kind {
	case "malformed":
		if perr == nil {
			c.r.Violation("IsPrecertificate accepts a malformed poison extension", lib, c.desc(j, "IsPrecertificate", "error", lib))
		}
	case kPre:
		if perr != nil || !isPre {
			c.r.Violation("IsPrecertificate does not recognise a critical NULL poison", lib, c.desc(j, "IsPrecertificate", "true, nil", lib))
		}
	default:
		if perr != nil || isPre {
			c.r.Violation("IsPrecertificate reports a certificate without poison as precertificate or error", lib, c.desc(j, "IsPrecertificate", "false, nil", lib))
		}
	}
}

// features names, from template metadata, what is special about an admissible
// sequence (used in signatures of wrongly refused chains).
func (w *world) features(j job) string {
	var f []string
	if first := j.s.items[0].n; first != nil && w.poolSet[first] && len(j.s.items) > 1 {
		f = append(f, "first-element-is-pool-root-followed-by-its-cross-issuer")
	}
	nodes := []*node{}
	for _, it := range j.s.items {
		if it.n != nil {
			nodes = append(nodes, it.n)
		}
	}
	if len(nodes) > 0 {
		for _, r := range w.pool {
			if issuedBy(nodes[len(nodes)-1], r) {
				nodes = append(nodes, r)
			}
		}
	}
	for _, n := range nodes[1:] {
		if n.spec.noSKI {
			f = append(f, "issuer-without-ski-and-same-key-sibling-with-ski")
			break
		}
	}
	if len(f) == 0 {
		return "ordinary-hierarchy"
	}
	return strings.Join(f, ",")
}

func silenceKlog() {
	fs := flag.NewFlagSet("klog", flag.ContinueOnError)
	klog.InitFlags(fs)
	fs.Set("logtostderr", "false")
	fs.Set("alsologtostderr", "false")
	fs.Set("stderrthreshold", "FATAL")
	klog.SetOutput(io.Discard)
}

// probeOptions is the option set crossed with every perturbed sequence.
func probeOptions(thorough bool) []optSpec {
	ws, es := windows(false), expiries(false)
	off := optSpec{win: ws[0], exp: es[0], rejN: "none"}
	allOn := optSpec{win: ws[8], exp: es[2], eku: []string{"server"}, rej: [][]int{oidHasNot}, rejN: "absent-oid"}
	onlyCA := off
	onlyCA.onlyCA = true
	lim := off
	lim.win = ws[5]
	unexp := off
	unexp.exp = es[6]
	rej := off
	rej.rej, rej.rejN = [][]int{oidHas}, "present-oid"
	eku := off
	eku.eku = []string{"client"}
	out := []optSpec{off, allOn, onlyCA, lim, unexp, rej, eku}
	if thorough {
		caAll := allOn
		caAll.onlyCA = true
		caAll.eku = nil
		out = append(out, caAll)
	}
	return out
}

// productOptions is the full admission-option product.
func productOptions(thorough bool) []optSpec {
	ekus := [][]string{nil, {"server"}, {"client"}}
	type rj struct {
		n   string
		ids [][]int
	}
	rejs := []rj{{"none", nil}, {"present-oid", [][]int{oidHas}}, {"absent-oid", [][]int{oidHasNot}}}
	if thorough {
		ekus = append(ekus, []string{"client", "server"}, []string{"ct"})
		rejs = append(rejs, rj{"absent+present", [][]int{oidHasNot, oidHas}}, rj{"poison-oid", [][]int{pki.OIDPoison}})
	}
	var out []optSpec
	for _, w := range windows(thorough) {
		for _, e := range expiries(thorough) {
			for _, ca := range []bool{false, true} {
				for _, ek := range ekus {
					for _, r := range rejs {
						out = append(out, optSpec{win: w, exp: e, onlyCA: ca, eku: ek, rej: r.ids, rejN: r.n})
					}
				}
			}
		}
	}
	return out
}

func TestCheck(t *testing.T) {
	silenceKlog()
	r := rep.New("C02", "exploration")
	th := r.Thorough()
	depth := 1
	if th {
		depth = 2
	}
	w := newWorld(th)
	c := &checker{r: r, w: w, poolDER: w.poolDER(), signer: pki.LoadKey("p256-6")}
	c.pool = x509util.NewPEMCertPool()
	for _, p := range w.pool {
		c.poolLbl = append(c.poolLbl, p.id)
		crt, err := x509.ParseCertificate(p.DER)
		if crt == nil {
			t.Fatalf("pool root %s does not parse: %v", p.id, err)
		}
		c.pool.AddCert(crt)
	}
	reg := func(n *node) { derLabel[string(n.DER)] = n.id }
	for _, b := range append(append([]base{}, w.bases...), w.optBases...) {
		for _, n := range b.path {
			reg(n)
			for _, v := range w.variants[n] {
				reg(v.n)
			}
		}
	}
	for _, n := range append(append([]*node{}, w.inserts...), w.pool...) {
		reg(n)
	}

	r.Rule(fmt.Sprintf("hierarchy: trusted pool {R1 p256, R2 rsa2048, R3 / 'R3 v2' one p256 key under two names, the newer without SKI}; intermediates I1 (p384) <- R1, I2 (rsa) <- I1, J1 (ed25519) <- R2, X (p256) issued by R1 and by R2, pre-issuer P (CT EKU) <- I1, R1 cross-certified by R2, R1 re-issued outside the pool, K <- 'R3 v2'; per CA a same-name-other-key impostor, two non-CA twins (no basicConstraints / CA:FALSE), a same-key-other-name twin; per certificate two forgeries (wrong key of the same / of another algorithm); an untrusted root and intermediate. "+
		"Bases: %d valid paths of length 1..4 x leaf kind {cert, precert, poison non-critical, poison non-NULL%s} plus CA certificates and pool roots as first element. "+
		"Phase P: every sequence within %d perturbation(s) {drop i, swap i/j, duplicate i (adjacent / at end), insert untrusted CA / untrusted root / other pool root at every position (incl. after the root), impostor, non-CA, renamed twin, forged signature, 4 kinds of non-certificate bytes at every position and appended} of every base x %d probe option sets. "+
		"Phase O: full option product {NotAfter window x expiry mode+clock x acceptOnlyCA x required EKU x forbidden extension ids} x bases (quick: one-int, two-int, preissuer, renamed-root-aki in every leaf kind, CA certificate, pool root alone, pool root + cross issuer, leaves without EKU / clientAuth / clientAuth+serverAuth; thorough: every base), unperturbed and with the root omitted (thorough: plus leaf and issuer swapped). "+
		"Every case on ctfe.ValidateChain(+IsPrecertificate), add-chain and add-pre-chain of a fresh front end. distinct_nontrivial = distinct (sequence, options, endpoint) whose oracle verdict is accept or reject-for-exactly-one-clause",
		len(w.bases), map[bool]string{true: ", poison empty", false: ""}[th], depth, len(probeOptions(th))))
	r.Assume(
		"every member of the trusted pool carries CA:TRUE (the statement is silent on the CA bit of pool roots; non-CA trust anchors are not generated)",
		"no generated leaf asserts anyExtendedKeyUsage and no required-EKU list contains it (statement silent)",
		"a certification path contains no certificate twice (RFC 5280 s6.1): a sequence repeating a certificate, including a self-signed one, is expected to be refused",
		"'names' = issuer name bytes equal the next certificate's subject name bytes; only byte-identical encodings of equal names are generated",
		"expired means clock strictly after NotAfter (RFC 5280 s4.1.2.5: the validity period includes NotAfter)",
		"every generated CA has keyCertSign; signature algorithms: ecdsa-with-SHA256/384, sha256WithRSAEncryption, Ed25519",
		"key identifiers are hints, not part of the statement: one base has an issuer in the pool without SKI while another pool member with the same key has one",
		"bytes followed by a trailing octet, a truncated certificate, the empty string and SEQUENCE{INTEGER 0} are 'not a certificate'",
		"rejections of the front end are expected as HTTP 400 with no leaf queued; the handed-on path is read from the QueueLeaf request (leaf value / extra data per RFC 6962 s3.4, s4.6)")

	// ---- pass 0: IsPrecertificate on every leaf certificate
	for _, l := range w.eeLeaves {
		crt, err := x509.ParseCertificate(l.DER)
		j := job{base: base{name: "leaf", kind: poisonKind(l)}, s: seq{items: []item{certItem(l)}, ops: "identity"}, o: optSpec{}}
		r.Eval(1)
		if crt == nil {
			if poisonKind(l) != "malformed" {
				r.Violation("well-formed leaf does not parse", fmt.Sprint(err), c.desc(j, "ParseCertificate", "parses", fmt.Sprint(err)))
			}
			continue
		}
		isPre, perr := ctfe.IsPrecertificate(crt)
		c.checkKind(j, poisonKind(l), isPre, perr)
		r.Nontrivial("K|" + l.id)
	}

	// ---- build the job list
	var jobs []job
	seen := map[string]bool{}
	popts := probeOptions(th)
	nseq := 0
	for _, b := range w.bases {
		for _, s := range w.sequences(b, depth) {
			l := s.label()
			if seen[l] {
				continue
			}
			seen[l] = true
			nseq++
			for _, o := range popts {
				jobs = append(jobs, job{b, s, o})
			}
		}
	}
	r.Set("phaseP_distinct_sequences", nseq)
	r.Set("phaseP_jobs", len(jobs))
	prod := productOptions(th)
	np := len(jobs)
	quickO := map[string]bool{"one-int": true, "two-int": true, "preissuer": true, "renamed-root-aki": true, "ca-leaf": true, "root-alone-r1": true, "pool-root-then-cross": true}
	for _, b := range append(append([]base{}, w.bases...), w.optBases...) {
		if !th && !quickO[b.name] && !strings.HasPrefix(b.name, "one-int-eku") {
			continue // quick: one base per distinct kind of first element; thorough: every base
		}
		var items []item
		for _, n := range b.path {
			items = append(items, certItem(n))
		}
		ss := []seq{{items: items, ops: "identity"}}
		if len(items) > 1 {
			ss = append(ss, seq{items: items[:len(items)-1], ops: "drop"})
			if th {
				sw := clone(items)
				sw[0], sw[1] = sw[1], sw[0]
				ss = append(ss, seq{items: sw, ops: "swap"})
			}
		}
		for _, s := range ss {
			for _, o := range prod {
				jobs = append(jobs, job{b, s, o})
			}
		}
	}
	r.Set("phaseO_option_combinations", len(prod))
	r.Set("phaseO_jobs", len(jobs)-np)
	r.Set("certificates_in_hierarchy", len(derLabel))

	done := enum.ParFor(len(jobs), r.Expired, func(i int) {
		pan, msg, stack := enum.Catch(func() { c.run(jobs[i]) })
		if pan {
			r.Violation("harness-panic", msg+"\n"+stack, c.desc(jobs[i], "", "", ""))
		}
	})
	if !done {
		r.Capped("deadline reached before all (sequence, options) jobs were run")
	}
	c.live(t)
	r.Finish()
}
