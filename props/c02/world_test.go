//go:build verif

package c02

import (
	"bytes"
	"fmt"
	"time"

	"verif/ref/der"
	"verif/ref/pki"
)

// node is one certificate of the hierarchy together with the ground truth the
// oracle uses. Nothing in here is obtained by parsing DER.
type node struct {
	*pki.Cert
	id      string   // unique label
	ekus    []string // "server", "client", "ct" as put into the template
	issuer  []byte   // DER of the issuer name of the template
	subject []byte   // DER of the subject name of the template
	self    bool     // built as self-signed
	spec    caSpec   // how a CA node was built (for variants)
}

type caSpec struct {
	cn     string
	key    string
	parent *node // nil: self-signed
	bc     int   // 0 no basicConstraints, 1 CA:TRUE, 2 CA:FALSE
	ekus   []string
	noSKI  bool
	pl     int // n > 0: basicConstraints carries pathLenConstraint n-1 (the statement does not make path length a condition of admission)
}

var ekuOID = map[string][]int{"server": pki.OIDEKUServerAuth, "client": pki.OIDEKUClientAuth, "ct": pki.OIDEKUCT, "any": pki.OIDEKUAny}

var serialCtr = 0x020000

func nextSerial() []byte {
	serialCtr++
	return []byte{byte(serialCtr >> 16), byte(serialCtr >> 8), byte(serialCtr)}
}

func keyID(k *pki.Key) []byte { h := k.KeyHash(); return h[:20] }

func wrap(c *pki.Cert, id string, ekus []string) *node {
	c.Label = id
	return &node{Cert: c, id: id, ekus: ekus, issuer: c.T.Issuer.DER(), subject: c.T.Subject.DER()}
}

// buildCA builds a CA-like certificate from a spec. signWith overrides the
// signing key (forgery).
func buildCA(id string, s caSpec, signWith *pki.Key) *node {
	k := pki.LoadKey(s.key)
	var exts []pki.Ext
	switch {
	case s.bc == 1 && s.pl > 0:
		exts = append(exts, pki.ExtBasicConstraintsPathLen(s.pl-1))
	case s.bc == 1:
		exts = append(exts, pki.ExtBasicConstraints(true, true))
	case s.bc == 2:
		exts = append(exts, pki.ExtBasicConstraints(false, true))
	}
	exts = append(exts, pki.ExtKeyUsage(0x06, 1))
	if !s.noSKI {
		exts = append(exts, pki.ExtSKI(keyID(k)))
	}
	issuer := pki.CN(s.cn)
	signer := k
	if s.parent != nil {
		issuer = s.parent.T.Subject
		signer = s.parent.T.Key
		exts = append(exts, pki.ExtAKI(keyID(s.parent.T.Key)))
	}
	if len(s.ekus) > 0 {
		var o [][]int
		for _, e := range s.ekus {
			o = append(o, ekuOID[e])
		}
		exts = append(exts, pki.ExtEKU(o...))
	}
	if signWith != nil {
		signer = signWith
	}
	c := pki.Build(pki.Tmpl{Serial: nextSerial(), Issuer: issuer, Subject: pki.CN(s.cn), NotBefore: pki.T0, NotAfter: pki.T1, Key: k, Exts: exts}, signer)
	n := wrap(c, id, s.ekus)
	n.self = s.parent == nil
	n.spec = s
	return n
}

// leafNA is the NotAfter of every end-entity certificate.
var leafNA = time.Date(2025, 6, 1, 12, 0, 0, 0, time.UTC)

const (
	kCert     = "cert"
	kPre      = "precert"
	kPoisonNC = "poison-noncritical"
	kPoisonNN = "poison-nonnull"
	kPoisonE  = "poison-empty"
	kPoisonT  = "poison-null-plus-trailing" // 05 00 followed by further bytes
	kPoisonL  = "poison-null-long-length"   // 05 81 00: NULL with a non-minimal length
)

var (
	oidHas    = []int{1, 3, 6, 1, 4, 1, 55555, 7} // every end-entity leaf carries it
	oidHasNot = []int{1, 3, 6, 1, 4, 1, 55555, 9}
)

func buildLeaf(id, key string, parent *node, kind string, ekus []string) *node {
	k := pki.LoadKey(key)
	exts := []pki.Ext{pki.ExtSAN(id + ".example"), pki.ExtAKI(keyID(parent.T.Key))}
	switch kind {
	case kPre:
		exts = append(exts, pki.ExtPoison())
	case kPoisonNC:
		exts = append(exts, pki.Ext{OID: pki.OIDPoison, Critical: false, Value: der.Null(), Label: "poison"})
	case kPoisonNN:
		exts = append(exts, pki.Ext{OID: pki.OIDPoison, Critical: true, Value: der.Int(0), Label: "poison"})
	case kPoisonE:
		exts = append(exts, pki.Ext{OID: pki.OIDPoison, Critical: true, Value: []byte{}, Label: "poison"})
	case kPoisonT:
		exts = append(exts, pki.Ext{OID: pki.OIDPoison, Critical: true, Value: []byte{5, 0, 5, 0}, Label: "poison"})
	case kPoisonL:
		exts = append(exts, pki.Ext{OID: pki.OIDPoison, Critical: true, Value: []byte{5, 0x81, 0}, Label: "poison"})
	}
	if len(ekus) > 0 {
		var o [][]int
		for _, e := range ekus {
			o = append(o, ekuOID[e])
		}
		exts = append(exts, pki.ExtEKU(o...))
	}
	exts = append(exts, pki.ExtUnknown(7, false, der.Null()))
	c := pki.Build(pki.Tmpl{Serial: nextSerial(), Issuer: parent.T.Subject, Subject: pki.CN(id), NotBefore: pki.T0, NotAfter: leafNA, Key: k, Exts: exts}, parent.T.Key)
	return wrap(c, id, ekus)
}

// poisonKind is the ground truth of the leaf kind, from the template.
func poisonKind(n *node) string {
	for _, e := range n.T.Exts {
		if fmt.Sprint(e.OID) == fmt.Sprint(pki.OIDPoison) {
			if e.Critical && bytes.Equal(e.Value, []byte{5, 0}) {
				return kPre
			}
			return "malformed"
		}
	}
	return kCert
}

func otherKey(name string) string {
	switch name {
	case "p384-0":
		return "p384-1"
	case "p384-1":
		return "p384-0"
	case "ed25519-0":
		return "ed25519-1"
	case "ed25519-1":
		return "ed25519-0"
	case "rsa2048-2":
		return "rsa2048-1"
	case "rsa2048-0", "rsa2048-1":
		return "rsa2048-2"
	case "p256-9":
		return "p256-6"
	}
	return "p256-9"
}

// crossKey is a key of a different algorithm family.
func crossKey(name string) string {
	if pki.LoadKey(name).Kind == "p256" {
		return "rsa2048-2"
	}
	return "p256-9"
}

type base struct {
	name string
	kind string  // leaf kind label
	path []*node // full valid path, ending with a pool member
}

type world struct {
	pool     []*node
	poolSet  map[*node]bool
	bases    []base
	variants map[*node][]variant
	inserts  []*node
	eeLeaves []*node // every end-entity leaf (for the IsPrecertificate pass)
	optBases []base  // extra bases used only in the option product (EKU variety)
}

type variant struct {
	how string
	n   *node
}

func (w *world) otherRoot(n *node) *node {
	if n == w.pool[0] {
		return w.pool[1]
	}
	return w.pool[0]
}

func (w *world) addVariants(c *node) {
	if _, ok := w.variants[c]; ok {
		return
	}
	var vs []variant
	if c.spec.cn != "" { // CA-like node
		s := c.spec
		imp := s
		imp.key = otherKey(s.key)
		vs = append(vs, variant{"impostor", buildCA(c.id+"~imp", imp, nil)})
		nc := s
		nc.bc = 0
		vs = append(vs, variant{"nonca", buildCA(c.id+"~nonca", nc, nil)})
		ncf := s
		ncf.bc = 2
		vs = append(vs, variant{"nonca", buildCA(c.id+"~cafalse", ncf, nil)})
		tw := s
		tw.cn = s.cn + "-twin"
		vs = append(vs, variant{"twin", buildCA(c.id+"~twin", tw, nil)})
	}
	// forged: same template, signature by a wrong key of the same algorithm and of another algorithm
	f1 := wrap(pki.Build(c.T, pki.LoadKey(otherKey(c.Signer.Name))), c.id+"~forged", c.ekus)
	f2 := wrap(pki.Build(c.T, pki.LoadKey(crossKey(c.Signer.Name))), c.id+"~forgedalg", c.ekus)
	vs = append(vs, variant{"forged", f1}, variant{"forged", f2})
	w.variants[c] = vs
}

func newWorld(thorough bool) *world {
	w := &world{poolSet: map[*node]bool{}, variants: map[*node][]variant{}}
	root := func(id, cn, key string, noSKI bool) *node {
		return buildCA(id, caSpec{cn: cn, key: key, bc: 1, noSKI: noSKI}, nil)
	}
	ca := func(id, cn, key string, parent *node, ekus ...string) *node {
		return buildCA(id, caSpec{cn: cn, key: key, parent: parent, bc: 1, ekus: ekus}, nil)
	}
	R1 := root("R1", "R1", "p256-0", false)
	R2 := root("R2", "R2", "rsa2048-0", false)
	// a renamed trust anchor: same key under an old name (with SKI) and a new name (without SKI)
	R3old := root("R3old", "R3", "p256-4", false)
	R3new := root("R3new", "R3 v2", "p256-4", true)
	w.pool = []*node{R1, R2, R3old, R3new}
	for _, r := range w.pool {
		w.poolSet[r] = true
	}
	U0 := root("U0", "U0", "p256-8", false) // not trusted
	UI := ca("UI", "UI", "p256-7", U0)
	I1 := ca("I1", "I1", "p384-0", R1)
	I2 := ca("I2", "I2", "rsa2048-1", I1)
	J1 := ca("J1", "J1", "ed25519-0", R2)
	X1 := ca("X1", "X", "p256-1", R1)
	X2 := ca("X2", "X", "p256-1", R2)
	P := ca("P", "P", "p256-2", I1, "ct")
	R1x2 := ca("R1x2", "R1", "p256-0", R2) // R1 cross-certified by R2
	R1re := root("R1re", "R1", "p256-0", false) // R1 re-issued (same name and key), not in the pool
	K := ca("K", "K", "p256-5", R3new)
	// a CA whose pathLenConstraint (0) is exceeded by what hangs below it: another CA, and a precertificate signing certificate
	Q1 := buildCA("Q1", caSpec{cn: "Q1", key: "p256-6", parent: R1, bc: 1, pl: 1}, nil)
	Q2 := ca("Q2", "Q2", "p256-7", Q1)
	PQ := ca("PQ", "PQ", "p256-2", Q1, "ct")

	type lb struct {
		name   string
		key    string
		parent *node
		rest   []*node
	}
	lbs := []lb{
		{"direct", "p256-3", R1, []*node{R1}},
		{"one-int", "p256-3", I1, []*node{I1, R1}},
		{"two-int", "ed25519-1", I2, []*node{I2, I1, R1}},
		{"ed25519-int", "p256-3", J1, []*node{J1, R2}},
		{"cross-int-r1", "rsa2048-2", X1, []*node{X1, R1}},
		{"cross-int-r2", "rsa2048-2", X2, []*node{X2, R2}},
		{"preissuer", "p256-3", P, []*node{P, I1, R1}},
		{"cross-root", "p256-3", I1, []*node{I1, R1x2, R2}},
		{"reissued-root", "p256-3", I1, []*node{I1, R1re, R1}},
		{"renamed-root-aki", "p256-3", K, []*node{K, R3new}},
		{"pathlen-exceeded", "p256-3", Q2, []*node{Q2, Q1, R1}},
		{"pathlen-exceeded-by-preissuer", "p256-3", PQ, []*node{PQ, Q1, R1}},
		// leaves that carry the one public key the signature check exempts from "the issuer must be a CA"
		{"entrust-key-direct", "entrust2048-public", R1, []*node{R1}},
		{"entrust-key-one-int", "entrust2048-public", I1, []*node{I1, R1}},
		{"entrust-key-two-int", "entrust2048-public", I2, []*node{I2, I1, R1}},
	}
	kinds := []string{kCert, kPre, kPoisonNC, kPoisonNN, kPoisonT, kPoisonL}
	if thorough {
		kinds = append(kinds, kPoisonE)
	}
	// leaves are shared between bases with the same issuer and key
	leafOf := map[string]*node{}
	mkLeaf := func(key string, parent *node, kind string, ekus []string) *node {
		id := fmt.Sprintf("L(%s,%s,%v)", parent.id, kind, ekus)
		if parent.subject != nil && (parent == X1 || parent == X2) {
			id = fmt.Sprintf("L(X,%s,%v)", kind, ekus)
		}
		if key == "entrust2048-public" {
			id += "~entrustkey"
		}
		if l, ok := leafOf[id]; ok {
			return l
		}
		l := buildLeaf(id, key, parent, kind, ekus)
		leafOf[id] = l
		w.eeLeaves = append(w.eeLeaves, l)
		return l
	}
	for _, b := range lbs {
		for _, k := range kinds {
			l := mkLeaf(b.key, b.parent, k, []string{"server"})
			w.bases = append(w.bases, base{name: b.name, kind: k, path: append([]*node{l}, b.rest...)})
		}
	}
	// CA certificates as the first element
	caBases := []base{
		{"root-alone-r1", "ca", []*node{R1}},
		{"root-alone-r2", "ca", []*node{R2}},
		{"ca-leaf", "ca", []*node{I1, R1}},
		{"ca-leaf-two", "ca", []*node{I2, I1, R1}},
		{"ca-leaf-crossroot", "ca", []*node{I1, R1x2, R2}},
		{"pool-root-then-cross", "ca", []*node{R1, R1x2, R2}},
	}
	w.bases = append(w.bases, caBases...)
	// EKU variety for the option product
	for _, ek := range [][]string{nil, {"client"}, {"client", "server"}} {
		for _, k := range []string{kCert, kPre} {
			l := mkLeaf("p256-3", I1, k, ek)
			w.optBases = append(w.optBases, base{name: fmt.Sprintf("one-int-eku%v", ek), kind: k, path: []*node{l, I1, R1}})
		}
	}
	w.inserts = []*node{UI, U0}
	for _, b := range append(append([]base{}, w.bases...), w.optBases...) {
		for _, c := range b.path {
			w.addVariants(c)
		}
	}
	return w
}

func (w *world) poolDER() [][]byte {
	var out [][]byte
	for _, r := range w.pool {
		out = append(out, r.DER)
	}
	return out
}
