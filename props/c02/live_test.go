//go:build verif

package c02

// Live instances: the filters as a deployed log applies them. The other passes
// hand ValidateChain explicit options with a pinned "now"; a deployed log is
// built by ctfe.SetUpInstance from a LogConfig (roots file, key, reject_expired,
// reject_unexpired, not_after_start/limit, accept_only_ca, ext_key_usages,
// reject_extensions) and judges expiry by the wall clock at the moment of each
// submission. Here every configuration of a small product is built through the
// real ValidateLogConfig + SetUpInstance inside a testing/synctest bubble (the
// bubble's wall clock is virtual: it starts at 2000-01-01T00:00:00Z and moves
// only when the harness sleeps), and ONE instance then sees a history: a
// submission before the leaf's NotAfter, a sleep across it, and submissions
// after it. The oracle is filterFails on template metadata, as everywhere else.

import (
	"context"
	stdx509 "crypto/x509"
	"encoding/pem"
	"fmt"
	"github.com/google/certificate-transparency-go/x509"
	"github.com/google/certificate-transparency-go/x509util"
	"github.com/google/trillian"
	"os"
	"path/filepath"
	"strings"
	"sync"
	"testing"
	"testing/synctest"
	"time"
	"verif/engine/rep"

	"verif/engine/enum"
	"verif/ref/fe"
	"verif/ref/pki"
	"verif/ref/reflog"

	"github.com/google/certificate-transparency-go/trillian/ctfe"
	"github.com/google/certificate-transparency-go/trillian/ctfe/configpb"
	"github.com/google/trillian/crypto/keys"
	"github.com/google/trillian/crypto/keys/der"
	"github.com/google/trillian/crypto/keyspb"
	"github.com/google/trillian/monitoring"
	"google.golang.org/protobuf/types/known/anypb"
	"google.golang.org/protobuf/types/known/timestamppb"
)

// bubbleEpoch is where testing/synctest starts the virtual wall clock.
var bubbleEpoch = time.Date(2000, 1, 1, 0, 0, 0, 0, time.UTC)

// liveNA: NotAfter of the leaves of this pass, one hour into the bubble.
var liveNA = bubbleEpoch.Add(time.Hour)

var oidHasNot2 = []int{1, 3, 6, 1, 4, 1, 55555, 11}

type liveCfg struct {
	exp    string // "off", "rejExpired", "rejUnexpired"
	win    window
	onlyCA bool
	eku    []string
	rej    [][]int
}

func (l liveCfg) label() string {
	var rj []string
	for _, o := range l.rej {
		rj = append(rj, oidStr(o))
	}
	return fmt.Sprintf("exp=%s win=%s onlyCA=%v eku=%v reject_extensions=[%s]", l.exp, l.win.name, l.onlyCA, l.eku, strings.Join(rj, ","))
}

func oidStr(o []int) string {
	var p []string
	for _, n := range o {
		p = append(p, fmt.Sprint(n))
	}
	return strings.Join(p, ".")
}

var cfgEKU = map[string]string{"server": "ServerAuth", "client": "ClientAuth", "ct": "CertificateTransparency"}

func liveConfigs(th bool) []liveCfg {
	exps := []string{"off", "rejExpired", "rejUnexpired"}
	wins := []window{{"absent", nil, nil}, {"start==NA", dur(0), nil}, {"limit==NA", nil, dur(0)}, {"start==NA+1s", dur(sec), nil}, {"[NA,NA+1s)", dur(0), dur(sec)}}
	ekus := [][]string{nil, {"server"}, {"client"}, {"client", "server"}}
	rejs := [][][]int{nil, {oidHas}, {oidHasNot}, {oidHasNot, oidHas}, {oidHas, oidHasNot}, {oidHasNot, oidHasNot2, oidHas}, {oidHas, oidHasNot, oidHasNot2}, {oidHasNot, oidHas, oidHasNot2}, {oidHasNot, oidHasNot2}}
	var out []liveCfg
	for _, e := range exps {
		for _, w := range wins {
			for _, ca := range []bool{false, true} {
				for _, ek := range ekus {
					for _, rj := range rejs {
						n := 0
						for _, dflt := range []bool{w.name == "absent", !ca, ek == nil, rj == nil} {
							if !dflt {
								n++
							}
						}
						if !th && n > 2 {
							continue // quick: at most two non-default filters next to the expiry setting
						}
						out = append(out, liveCfg{e, w, ca, ek, rj})
					}
				}
			}
		}
	}
	return out
}

var liveKeysOnce sync.Once

func (c *checker) live(t *testing.T) {
	r := c.r
	liveKeysOnce.Do(func() { keys.RegisterHandler(&keyspb.PrivateKey{}, der.FromProto) })
	dir, err := os.MkdirTemp("", "c02live")
	if err != nil {
		t.Fatal(err)
	}
	defer os.RemoveAll(dir)
	rootsFile := filepath.Join(dir, "roots.pem")
	var pemBuf []byte
	for _, d := range c.poolDER {
		pemBuf = append(pemBuf, pem.EncodeToMemory(&pem.Block{Type: "CERTIFICATE", Bytes: d})...)
	}
	if err := os.WriteFile(rootsFile, pemBuf, 0o600); err != nil {
		t.Fatal(err)
	}
	keyDER, err := stdx509.MarshalPKCS8PrivateKey(c.signer.Priv)
	if err != nil {
		t.Fatal(err)
	}
	keyAny, err := anypb.New(&keyspb.PrivateKey{Der: keyDER})
	if err != nil {
		t.Fatal(err)
	}
	// leaves under I1 (> R1), NotAfter one hour into the bubble
	var I1, R1 *node
	for _, b := range c.w.bases {
		if b.name == "one-int" {
			I1, R1 = b.path[1], b.path[2]
		}
	}
	type lv struct {
		n    *node
		rest []*node
	}
	mkNA := liveNA
	mk := func(id, kind string, ekus []string) lv {
		k := pki.LoadKey("p256-3")
		exts := []pki.Ext{pki.ExtSAN(id + ".example"), pki.ExtAKI(keyID(I1.T.Key))}
		if kind == kPre {
			exts = append(exts, pki.ExtPoison())
		}
		if len(ekus) > 0 {
			var o [][]int
			for _, e := range ekus {
				o = append(o, ekuOID[e])
			}
			exts = append(exts, pki.ExtEKU(o...))
		}
		exts = append(exts, pki.ExtUnknown(7, false, []byte{5, 0}))
		cert := pki.Build(pki.Tmpl{Serial: nextSerial(), Issuer: I1.T.Subject, Subject: pki.CN(id), NotBefore: bubbleEpoch.AddDate(-1, 0, 0), NotAfter: mkNA, Key: k, Exts: exts}, I1.T.Key)
		n := wrap(cert, id, ekus)
		derLabel[string(n.DER)] = id
		return lv{n, []*node{I1, R1}}
	}
	leaves := []lv{mk("live-cert-server", kCert, []string{"server"}), mk("live-pre-server", kPre, []string{"server"}),
		mk("live-cert-client", kCert, []string{"client"}), mk("live-cert-noeku", kCert, nil),
		// anyExtendedKeyUsage on the leaf is a usage like any other for the log's filter: it is not in a list that does not name it
		mk("live-cert-anyeku", kCert, []string{"any"}), mk("live-pre-anyeku-client", kPre, []string{"any", "client"})}
	// far-future NotAfter values (beyond what an int64 of nanoseconds since 1970 can hold): outside every window with a limit
	for _, y := range []int{2300, 9999} {
		mkNA = time.Date(y, 12, 31, 23, 59, 59, 0, time.UTC)
		leaves = append(leaves, mk(fmt.Sprintf("live-cert-notafter-%d", y), kCert, []string{"server"}))
	}
	mkNA = liveNA
	// a CA certificate as the first element (accept_only_ca); its NotAfter is pki.T1, far after the bubble's clock
	leaves = append(leaves, lv{I1, []*node{R1}})
	c.liveTwoPools(t, rootsFile, keyAny, dir)
	c.pathHistories()
	c.siblingAnchors()
	c.laxCertificateWithTrailingBytes()
	cfgs := liveConfigs(r.Thorough())
	r.Set("live_instance_configurations", len(cfgs))
	done := enum.ParFor(len(cfgs), r.Expired, func(i int) {
		lc := cfgs[i]
		pan, msg, stack := enum.Catch(func() {
			synctest.Test(t, func(t *testing.T) {
				cfg := &configpb.LogConfig{LogId: 1, Prefix: "live", RootsPemFile: []string{rootsFile}, PrivateKey: keyAny,
					RejectExpired: lc.exp == "rejExpired", RejectUnexpired: lc.exp == "rejUnexpired", AcceptOnlyCa: lc.onlyCA}
				if lc.win.start != nil {
					cfg.NotAfterStart = timestamppb.New(liveNA.Add(*lc.win.start))
				}
				if lc.win.limit != nil {
					cfg.NotAfterLimit = timestamppb.New(liveNA.Add(*lc.win.limit))
				}
				for _, e := range lc.eku {
					cfg.ExtKeyUsages = append(cfg.ExtKeyUsages, cfgEKU[e])
				}
				for _, o := range lc.rej {
					cfg.RejectExtensions = append(cfg.RejectExtensions, oidStr(o))
				}
				v, err := ctfe.ValidateLogConfig(cfg)
				if err != nil {
					r.Violation("live: well-formed log configuration refused", fmt.Sprintf("%s: %v", lc.label(), err), map[string]any{"config": lc.label()})
					return
				}
				be := reflog.New(1)
				rl := &fe.ReqLog{}
				inst, err := ctfe.SetUpInstance(context.Background(), ctfe.InstanceOptions{Validated: v, Client: be, Deadline: time.Hour,
					MetricFactory: monitoring.InertMetricFactory{}, RequestLog: rl})
				if err != nil {
					r.Violation("live: SetUpInstance fails on a well-formed configuration", fmt.Sprintf("%s: %v", lc.label(), err), map[string]any{"config": lc.label()})
					return
				}
				f := &fe.FE{Inst: inst, Log: rl, Prefix: "/live", Pool: c.pool}
				// history on this one instance: 30 min before NotAfter, then 30 min and 25 h after it
				for step, sleep := range []time.Duration{30 * time.Minute, time.Hour, 24 * time.Hour} {
					time.Sleep(sleep)
					now := time.Now()
					for _, l := range leaves {
						// the configured window is absolute; filterFails wants offsets from this leaf's NotAfter
						w := window{name: lc.win.name}
						if lc.win.start != nil {
							w.start = dur(liveNA.Add(*lc.win.start).Sub(l.n.T.NotAfter))
						}
						if lc.win.limit != nil {
							w.limit = dur(liveNA.Add(*lc.win.limit).Sub(l.n.T.NotAfter))
						}
						o := optSpec{win: w, exp: expiry{name: lc.exp, rejExpired: lc.exp == "rejExpired", rejUnexpired: lc.exp == "rejUnexpired", now: now.Sub(l.n.T.NotAfter)},
							onlyCA: lc.onlyCA, eku: lc.eku, rej: lc.rej}
						fails := filterFails(l.n, o)
						isPre := poisonKind(l.n) == kPre
						raws := [][]byte{l.n.DER}
						for _, x := range l.rest {
							raws = append(raws, x.DER)
						}
						r.Eval(1)
						if len(fails) <= 1 {
							r.Nontrivial(fmt.Sprintf("live|%s|%s|step%d", lc.label(), l.n.id, step))
						}
						q0 := len(be.CallsOf("QueueLeaf"))
						rsp, _ := f.AddChain(isPre, raws)
						q1 := len(be.CallsOf("QueueLeaf"))
						desc := map[string]any{"config": lc.label(), "leaf": l.n.id, "leaf_not_after": l.n.T.NotAfter.Format(time.RFC3339), "wall_clock_at_submission": now.Format(time.RFC3339),
							"history": "instance built at 2000-01-01T00:00:00Z; submissions at +30m, +1h30m, +25h30m on the same instance", "oracle_filter_failures": fails,
							"library": fmt.Sprintf("HTTP %d %s", rsp.Status, strings.TrimSpace(string(rsp.Body)))}
						switch {
						case rsp.Status == 200 && len(fails) > 0:
							r.Violation("live instance admits a leaf its configured filters exclude: "+fails[0], fmt.Sprintf("%s, leaf %s at %s: 200 although %v", lc.label(), l.n.id, now.Format(time.RFC3339), fails), desc)
						case rsp.Status != 200 && len(fails) == 0:
							r.Violation("live instance refuses a leaf that satisfies its configured filters", fmt.Sprintf("%s, leaf %s at %s: HTTP %d %s", lc.label(), l.n.id, now.Format(time.RFC3339), rsp.Status, strings.TrimSpace(string(rsp.Body))), desc)
						case rsp.Status != 200 && (rsp.Status != 400 || q1 != q0):
							r.Violation("live instance: rejection is not a 400 without backend call", fmt.Sprintf("HTTP %d, %d backend calls", rsp.Status, q1-q0), desc)
						}
					}
				}
			})
		})
		if pan {
			r.Violation("live-instance-panic", msg+"\n"+stack, map[string]any{"config": lc.label()})
		}
	})
	if !done {
		r.Capped("deadline reached before all live-instance configurations were run")
	}
}

// liveTwoPools: several logs of one process, configured with different roots files (one of them with
// two files). Each log trusts exactly the roots of its own files, whatever was set up before or after.
func (c *checker) liveTwoPools(t *testing.T, rootsFile string, keyAny *anypb.Any, dir string) {
	r := c.r
	var U0 *node
	for _, n := range c.w.inserts {
		if n.self {
			U0 = n
		}
	}
	if U0 == nil {
		r.Violation("harness", "no untrusted root in the world", nil)
		return
	}
	extra := filepath.Join(dir, "extra.pem")
	if err := os.WriteFile(extra, pem.EncodeToMemory(&pem.Block{Type: "CERTIFICATE", Bytes: U0.DER}), 0o600); err != nil {
		t.Fatal(err)
	}
	var R1 *node
	for _, b := range c.w.bases {
		if b.name == "one-int" {
			R1 = b.path[2]
		}
	}
	mkLeaf := func(id string, parent *node) *node {
		exts := []pki.Ext{pki.ExtSAN(id + ".example"), pki.ExtAKI(keyID(parent.T.Key))}
		cert := pki.Build(pki.Tmpl{Serial: nextSerial(), Issuer: parent.T.Subject, Subject: pki.CN(id), NotBefore: pki.T0, NotAfter: leafNA, Key: pki.LoadKey("p256-3"), Exts: exts}, parent.T.Key)
		n := wrap(cert, id, nil)
		derLabel[string(n.DER)] = id
		return n
	}
	lu, l1 := mkLeaf("pool-leaf-under-extra-root", U0), mkLeaf("pool-leaf-under-common-root", R1)
	type logSpec struct {
		name  string
		files []string
		wide  bool
	}
	orders := [][]logSpec{
		{{"narrow", []string{rootsFile}, false}, {"wide", []string{rootsFile, extra}, true}, {"narrow2", []string{rootsFile}, false}},
		{{"wide", []string{rootsFile, extra}, true}, {"narrow", []string{rootsFile}, false}, {"wide2", []string{extra, rootsFile}, true}},
	}
	for oi, order := range orders {
		var fes []*fe.FE
		for li, ls := range order {
			cfg := &configpb.LogConfig{LogId: int64(10 + li), Prefix: ls.name, RootsPemFile: ls.files, PrivateKey: keyAny}
			v, err := ctfe.ValidateLogConfig(cfg)
			if err != nil {
				r.Violation("live: well-formed log configuration refused", fmt.Sprintf("%s: %v", ls.name, err), nil)
				return
			}
			rl := &fe.ReqLog{}
			inst, err := ctfe.SetUpInstance(context.Background(), ctfe.InstanceOptions{Validated: v, Client: reflog.New(int64(10 + li)), Deadline: time.Hour,
				MetricFactory: monitoring.InertMetricFactory{}, RequestLog: rl})
			if err != nil {
				r.Violation("live: SetUpInstance fails on a well-formed configuration", fmt.Sprintf("%s: %v", ls.name, err), nil)
				return
			}
			fes = append(fes, &fe.FE{Inst: inst, Log: rl, Prefix: "/" + ls.name, Pool: c.pool})
		}
		// every log is asked twice, after all of them exist
		for round := 0; round < 2; round++ {
			for li, ls := range order {
				for _, sub := range []struct {
					leaf, root *node
					want       bool
				}{{lu, U0, ls.wide}, {l1, R1, true}} {
					r.Eval(1)
					r.Nontrivial(fmt.Sprintf("two-pools|%d|%s|%s|%d", oi, ls.name, sub.leaf.id, round))
					rsp, _ := fes[li].AddChain(false, [][]byte{sub.leaf.DER, sub.root.DER})
					if (rsp.Status == 200) != sub.want {
						desc := map[string]any{"logs_set_up_in_order": fmt.Sprint(order), "log": ls.name, "roots_files": ls.files, "chain": []string{sub.leaf.id, sub.root.id}}
						if sub.want {
							r.Violation("live instance refuses a chain to a root of its own roots files (several logs in one process)", fmt.Sprintf("log %s (files %v): HTTP %d %s", ls.name, ls.files, rsp.Status, strings.TrimSpace(string(rsp.Body))), desc)
						} else {
							r.Violation("live instance admits a chain to a root that is not in its roots files (several logs in one process)", fmt.Sprintf("log %s (files %v) admits [%s, %s]", ls.name, ls.files, sub.leaf.id, sub.root.id), desc)
						}
					}
				}
			}
		}
	}
}

// pathHistories: one instance sees several chains in a row, among them chains that share their
// first certificates and differ further up (an issuing CA under a root and under that root's
// cross-certificate, a re-issued root, a longer path). Every admitted chain is handed on with its
// OWN path, whatever the instance handed on before.
func (c *checker) pathHistories() {
	r := c.r
	want := map[string]bool{"one-int": true, "cross-root": true, "reissued-root": true, "two-int": true, "direct": true, "preissuer": true}
	var bs []base
	for _, b := range c.w.bases {
		if want[b.name] && (b.kind == kCert || b.kind == kPre) {
			bs = append(bs, b)
		}
	}
	ws, es := windows(false), expiries(false)
	off := optSpec{win: ws[0], exp: es[0], rejN: "none"}
	n := len(bs)
	enum.ParFor(n*n, r.Expired, func(i int) {
		a, b := bs[i/n], bs[i%n]
		if i/n == i%n {
			return
		}
		vopts, rej := instantiate(off, leafNA, c.pool)
		be := reflog.New(1)
		f := c.frontEnd(be, vopts, rej)
		for step, x := range []base{a, b, a} {
			r.Eval(1)
			var raws, wantPath [][]byte
			for k, nd := range x.path {
				wantPath = append(wantPath, nd.DER)
				if k < len(x.path)-1 {
					raws = append(raws, nd.DER) // the pool root is not sent
				}
			}
			pre := x.kind == kPre
			q0 := len(be.CallsOf("QueueLeaf"))
			rsp, _ := f.AddChain(pre, raws)
			q := be.CallsOf("QueueLeaf")
			desc := map[string]any{"history": []string{a.name + "/" + a.kind, b.name + "/" + b.kind, a.name + "/" + a.kind}, "step": step, "submitted": c.pathLabels(raws), "expected_path": c.pathLabels(wantPath)}
			if rsp.Status != 200 || len(q) != q0+1 {
				r.Violation("path history: a valid chain is refused or not handed on after other chains were admitted", fmt.Sprintf("step %d of [%s, %s, %s]: HTTP %d %s", step, a.name, b.name, a.name, rsp.Status, strings.TrimSpace(string(rsp.Body))), desc)
				return
			}
			gp, bad := queuedPath(q[len(q)-1].Req.(*trillian.QueueLeafRequest).Leaf, pre)
			r.Nontrivial(fmt.Sprintf("path-history|%s/%s|%s/%s|%d", a.name, a.kind, b.name, b.kind, step))
			if bad != "" || !eqPath(gp, wantPath) {
				desc["handed_on"] = c.pathLabels(gp) + " " + bad
				r.Violation("path history: the path handed on is not the submitted chain's own path", fmt.Sprintf("step %d of [%s/%s, %s/%s, %s/%s] on one instance: handed on [%s] %s, expected [%s]", step, a.name, a.kind, b.name, b.kind, a.name, a.kind, c.pathLabels(gp), bad, c.pathLabels(wantPath)), desc)
			}
		}
	})
}

// siblingAnchors: two trust anchors with the same subject and key (a CA certified by two parents, both
// copies configured as anchors; neither parent trusted). A chain may name either of them explicitly, or
// neither; it is admitted and handed on with the anchor it named.
func (c *checker) siblingAnchors() {
	r := c.r
	ua := buildCA("SA-Ua", caSpec{cn: "SA untrusted a", key: "p256-8", bc: 1}, nil)
	ub := buildCA("SA-Ub", caSpec{cn: "SA untrusted b", key: "p256-7", bc: 1}, nil)
	x1 := buildCA("SA-X1", caSpec{cn: "SA X", key: "p256-1", parent: ua, bc: 1}, nil)
	x2 := buildCA("SA-X2", caSpec{cn: "SA X", key: "p256-1", parent: ub, bc: 1}, nil)
	i := buildCA("SA-I", caSpec{cn: "SA I", key: "p384-0", parent: x1, bc: 1}, nil)
	i2 := buildCA("SA-I2", caSpec{cn: "SA I2", key: "rsa2048-1", parent: i, bc: 1}, nil)
	l1 := buildLeaf("SA-leaf1", "p256-3", i, kCert, []string{"server"})
	l2 := buildLeaf("SA-leaf2", "p256-3", i2, kPre, []string{"server"})
	for _, n := range []*node{ua, ub, x1, x2, i, i2, l1, l2} {
		derLabel[string(n.DER)] = n.id
	}
	ws, es := windows(false), expiries(false)
	off := optSpec{win: ws[0], exp: es[0], rejN: "none"}
	for oi, order := range [][]*node{{x1, x2}, {x2, x1}} {
		pool := x509util.NewPEMCertPool()
		for _, a := range order {
			cert, err := x509.ParseCertificate(a.DER)
			if x509.IsFatal(err) {
				r.Violation("harness", "anchor does not parse: "+err.Error(), nil)
				return
			}
			pool.AddCert(cert)
		}
		type sub struct {
			name  string
			pre   bool
			chain []*node
			ends  []*node // acceptable last elements of the path handed on
		}
		subs := []sub{
			{"[leaf, I, X1]", false, []*node{l1, i, x1}, []*node{x1}},
			{"[leaf, I, X2]", false, []*node{l1, i, x2}, []*node{x2}},
			{"[leaf, I]", false, []*node{l1, i}, []*node{x1, x2}},
			{"[precert, I2, I, X1]", true, []*node{l2, i2, i, x1}, []*node{x1}},
			{"[precert, I2, I, X2]", true, []*node{l2, i2, i, x2}, []*node{x2}},
			{"[precert, I2, I]", true, []*node{l2, i2, i}, []*node{x1, x2}},
		}
		for _, sb := range subs {
			r.Eval(1)
			r.Nontrivial(fmt.Sprintf("sibling-anchors|%d|%s", oi, sb.name))
			vopts, rej := instantiate(off, leafNA, pool)
			be := reflog.New(1)
			f := c.frontEnd(be, vopts, rej)
			var raws [][]byte
			for _, n := range sb.chain {
				raws = append(raws, n.DER)
			}
			rsp, _ := f.AddChain(sb.pre, raws)
			desc := map[string]any{"trust_anchors_in_order": []string{order[0].id, order[1].id}, "note": "X1 and X2 have the same subject and key; their own issuers are not trusted", "submitted": sb.name}
			q := be.CallsOf("QueueLeaf")
			if rsp.Status != 200 || len(q) != 1 {
				r.Violation("sibling anchors: a chain that names one of two same-name same-key trust anchors is refused", fmt.Sprintf("anchors [%s, %s], submitted %s: HTTP %d %s", order[0].id, order[1].id, sb.name, rsp.Status, strings.TrimSpace(string(rsp.Body))), desc)
				continue
			}
			gp, bad := queuedPath(q[0].Req.(*trillian.QueueLeafRequest).Leaf, sb.pre)
			okEnd := false
			for _, e := range sb.ends {
				if len(gp) > 0 && string(gp[len(gp)-1]) == string(e.DER) {
					okEnd = true
				}
			}
			prefixOK := len(gp) >= len(raws) || len(gp) == len(raws)
			for k := range raws {
				if k < len(gp) && string(gp[k]) != string(raws[k]) {
					prefixOK = false
				}
			}
			if bad != "" || !okEnd || !prefixOK {
				r.Violation("sibling anchors: the path handed on is not the submitted chain ending in the anchor it named", fmt.Sprintf("anchors [%s, %s], submitted %s: handed on [%s] %s", order[0].id, order[1].id, sb.name, c.pathLabels(gp), bad), desc)
			}
		}
	}
}

// laxCertificateWithTrailingBytes: a certificate that only the lenient decoding accepts (serial number with
// a superfluous leading 00 octet) followed by extra bytes is not a certificate: it does not parse, whatever
// the plain certificate does.
func (c *checker) laxCertificateWithTrailingBytes() {
	r := c.r
	var I1, R1 *node
	for _, b := range c.w.bases {
		if b.name == "one-int" {
			I1, R1 = b.path[1], b.path[2]
		}
	}
	_ = R1
	exts := []pki.Ext{pki.ExtSAN("lax.example"), pki.ExtAKI(keyID(I1.T.Key)), pki.ExtUnknown(7, false, []byte{5, 0})}
	cert := pki.Build(pki.Tmpl{SerialContent: []byte{0x00, 0x00, 0x17}, Issuer: I1.T.Subject, Subject: pki.CN("lax-serial"), NotBefore: pki.T0, NotAfter: leafNA, Key: pki.LoadKey("p256-3"), Exts: exts}, I1.T.Key)
	derLabel[string(cert.DER)] = "leaf-with-non-minimal-serial"
	ws, es := windows(false), expiries(false)
	off := optSpec{win: ws[0], exp: es[0], rejN: "none"}
	vopts, rej := instantiate(off, leafNA, c.pool)
	plain := 0
	for _, tail := range [][]byte{nil, {0}, {0x30, 0x00}, {0xff, 0xff, 0xff}} {
		r.Eval(1)
		be := reflog.New(1)
		f := c.frontEnd(be, vopts, rej)
		raw := append(append([]byte{}, cert.DER...), tail...)
		rsp, _ := f.AddChain(false, [][]byte{raw, I1.DER})
		if tail == nil {
			plain = rsp.Status // whatever the log does with the lax-only certificate itself is not judged here
			r.Set("lax_only_certificate_status", plain)
			continue
		}
		r.Nontrivial(fmt.Sprintf("lax-trailing|%x", tail))
		if rsp.Status == 200 || len(be.CallsOf("QueueLeaf")) != 0 {
			r.Violation("a chain element that is a (lenient-only) certificate followed by extra bytes is admitted", fmt.Sprintf("leaf with a non-minimal serial + trailing %x: HTTP %d, %d leaves queued (the certificate alone: HTTP %d)", tail, rsp.Status, len(be.CallsOf("QueueLeaf")), plain),
				map[string]any{"trailing": fmt.Sprintf("%x", tail), "certificate": rep.Hex(cert.DER)})
		}
	}
}
