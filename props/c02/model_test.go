//go:build verif

package c02

import (
	"bytes"
	"fmt"
	"strings"
	"time"
)

// item is one element of a submitted sequence: a certificate of the hierarchy
// or bytes that are not a certificate.
type item struct {
	n     *node
	raw   []byte
	label string
}

func certItem(n *node) item { return item{n: n, raw: n.DER, label: n.id} }

type seq struct {
	items []item
	ops   string // perturbations applied
}

func (s seq) label() string {
	l := make([]string, len(s.items))
	for i, it := range s.items {
		l[i] = it.label
	}
	return strings.Join(l, " > ")
}

func (s seq) raws() [][]byte {
	out := make([][]byte, len(s.items))
	for i, it := range s.items {
		out[i] = it.raw
	}
	return out
}

// issuedBy is the ground truth of "c names p and is validly signed by p":
// issuer name bytes of c's template equal subject name bytes of p's template
// and the key that produced c's signature is p's subject key.
func issuedBy(c, p *node) bool {
	return bytes.Equal(c.issuer, p.subject) && c.Signer.Name == p.T.Key.Name
}

// chainPred is the structural half of the admission predicate. It returns the
// first failing clause ("" when the chain is admissible) and the expected
// validated path.
func (w *world) chainPred(s seq) (clause string, path [][]byte) {
	for _, it := range s.items {
		if it.n == nil {
			return "unparseable-element", nil
		}
	}
	for i := range s.items {
		for j := i + 1; j < len(s.items); j++ {
			if s.items[i].n == s.items[j].n {
				return "duplicate-certificate", nil
			}
		}
	}
	for i := 0; i+1 < len(s.items); i++ {
		c, p := s.items[i].n, s.items[i+1].n
		if !bytes.Equal(c.issuer, p.subject) {
			return "link-name-mismatch", nil
		}
		if c.Signer.Name != p.T.Key.Name {
			return "link-bad-signature", nil
		}
		if !p.IsCA {
			return "link-issuer-not-ca", nil
		}
	}
	last := s.items[len(s.items)-1].n
	path = s.raws()
	if w.poolSet[last] {
		return "", path
	}
	clause = "end-not-trusted"
	for _, r := range w.pool {
		if issuedBy(last, r) {
			used := false
			for _, it := range s.items {
				used = used || it.n == r
			}
			if used { // completing the path would use r a second time
				clause = "duplicate-certificate"
				continue
			}
			return "", append(path, r.DER)
		}
	}
	return clause, nil
}

// options of one log configuration, relative to the leaf's NotAfter.
type window struct {
	name         string
	start, limit *time.Duration // offset from NotAfter; nil: absent
}
type expiry struct {
	name                     string
	rejExpired, rejUnexpired bool
	now                      time.Duration // offset from NotAfter
}
type optSpec struct {
	win    window
	exp    expiry
	onlyCA bool
	eku    []string // required EKUs
	rej    [][]int  // forbidden extension ids
	rejN   string
}

func (o optSpec) label() string {
	return fmt.Sprintf("win=%s exp=%s onlyCA=%v eku=%v rejext=%s", o.win.name, o.exp.name, o.onlyCA, o.eku, o.rejN)
}

func dur(d time.Duration) *time.Duration { return &d }

const sec = time.Second

func windows(thorough bool) []window {
	ws := []window{
		{"absent", nil, nil},
		{"contains", dur(-3600 * sec), dur(3600 * sec)},
		{"start==NA", dur(0), nil},
		{"start==NA+1s", dur(sec), nil},
		{"start==NA-1s", dur(-sec), nil},
		{"limit==NA", nil, dur(0)},
		{"limit==NA+1s", nil, dur(sec)},
		{"limit==NA-1s", nil, dur(-sec)},
		{"[NA,NA+1s)", dur(0), dur(sec)},
	}
	if thorough {
		ws = append(ws,
			window{"[NA-1s,NA)", dur(-sec), dur(0)},
			window{"[NA,NA)", dur(0), dur(0)},
			window{"start==NA+1ns", dur(1), nil},
			window{"limit==NA+1ns", nil, dur(1)})
	}
	return ws
}

func expiries(thorough bool) []expiry {
	es := []expiry{
		{"off", false, false, 0},
		{"rejExpired@NA-1s", true, false, -sec},
		{"rejExpired@NA", true, false, 0},
		{"rejExpired@NA+1s", true, false, sec},
		{"rejUnexpired@NA-1s", false, true, -sec},
		{"rejUnexpired@NA", false, true, 0},
		{"rejUnexpired@NA+1s", false, true, sec},
		{"both@NA", true, true, 0},
	}
	if thorough {
		es = append(es, expiry{"both@NA+1s", true, true, sec},
			expiry{"rejExpired@NA+1ns", true, false, 1}, expiry{"rejUnexpired@NA+1ns", false, true, 1},
			expiry{"off@NA+10y", false, false, 10 * 365 * 24 * 3600 * sec})
	}
	return es
}

// filterFails lists the leaf filters of o that the leaf does not satisfy.
func filterFails(leaf *node, o optSpec) []string {
	var f []string
	na := leaf.T.NotAfter
	if o.win.start != nil && na.Before(na.Add(*o.win.start)) {
		f = append(f, "notafter-before-start")
	}
	if o.win.limit != nil && !na.Before(na.Add(*o.win.limit)) {
		f = append(f, "notafter-not-before-limit")
	}
	expired := o.exp.now > 0 // now is after NotAfter (RFC 5280: validity includes NotAfter)
	if o.exp.rejExpired && expired {
		f = append(f, "expired")
	}
	if o.exp.rejUnexpired && !expired {
		f = append(f, "unexpired")
	}
	if o.onlyCA && !leaf.IsCA {
		f = append(f, "not-ca")
	}
	if len(o.eku) > 0 {
		ok := false
		for _, want := range o.eku {
			for _, have := range leaf.ekus {
				if want == have {
					ok = true
				}
			}
		}
		if !ok {
			f = append(f, "eku")
		}
	}
	for _, id := range o.rej {
		hit := false
		for _, e := range leaf.T.Exts {
			if fmt.Sprint(e.OID) == fmt.Sprint(id) {
				hit = true
			}
		}
		if hit {
			f = append(f, "forbidden-extension")
			break
		}
	}
	return f
}

// ---------------------------------------------------------------------------
// perturbations

func clone(items []item) []item { return append([]item{}, items...) }

func garbage(of item, kind int) item {
	switch kind {
	case 0:
		return item{raw: []byte{}, label: "garbage:empty"}
	case 1:
		return item{raw: append([]byte{}, of.raw[:len(of.raw)-1]...), label: "garbage:truncated(" + of.label + ")"}
	case 2:
		return item{raw: append(append([]byte{}, of.raw...), 0), label: "garbage:trailing(" + of.label + ")"}
	}
	return item{raw: []byte{0x30, 0x03, 0x02, 0x01, 0x00}, label: "garbage:seq"}
}

// perturb returns every sequence one perturbation away from s.
func (w *world) perturb(s seq) []seq {
	var out []seq
	n := len(s.items)
	add := func(op string, items []item) {
		if len(items) == 0 {
			return
		}
		o := op
		if s.ops != "" {
			o = s.ops + "+" + op
		}
		out = append(out, seq{items: items, ops: o})
	}
	for i := 0; i < n; i++ { // drop (i == n-1: omit the last certificate, e.g. the root)
		it := clone(s.items[:i])
		add("drop", append(it, s.items[i+1:]...))
	}
	for i := 0; i < n; i++ {
		for j := i + 1; j < n; j++ {
			it := clone(s.items)
			it[i], it[j] = it[j], it[i]
			add("swap", it)
		}
	}
	for i := 0; i < n; i++ { // duplicate: right after itself, and at the end
		it := clone(s.items[:i+1])
		it = append(it, s.items[i])
		add("dup", append(it, s.items[i+1:]...))
		if i != n-1 {
			add("dup", append(clone(s.items), s.items[i]))
		}
	}
	ins := append([]*node{}, w.inserts...)
	if last := s.items[n-1].n; last != nil {
		ins = append(ins, w.otherRoot(last)) // another trusted root
	} else {
		ins = append(ins, w.pool[1])
	}
	for _, u := range ins {
		for j := 0; j <= n; j++ {
			it := clone(s.items[:j])
			it = append(it, certItem(u))
			add("insert", append(it, s.items[j:]...))
		}
	}
	for i := 0; i < n; i++ {
		if s.items[i].n == nil {
			continue
		}
		for _, v := range w.variants[s.items[i].n] {
			it := clone(s.items)
			it[i] = certItem(v.n)
			add(v.how, it)
		}
	}
	for i := 0; i < n; i++ {
		for k := 0; k < 4; k++ {
			if s.items[i].n == nil && (k == 1 || k == 2) {
				continue
			}
			it := clone(s.items)
			it[i] = garbage(s.items[i], k)
			add("garbage", it)
		}
	}
	add("garbage", append(clone(s.items), garbage(item{}, 3)))
	return out
}

// sequences returns the base sequence and everything within `depth`
// perturbations of it, without repetitions.
func (w *world) sequences(b base, depth int) []seq {
	var items []item
	for _, c := range b.path {
		items = append(items, certItem(c))
	}
	s0 := seq{items: items, ops: "identity"}
	seen := map[string]bool{s0.label(): true}
	all := []seq{s0}
	frontier := []seq{{items: items}}
	for d := 0; d < depth; d++ {
		var next []seq
		for _, s := range frontier {
			for _, p := range w.perturb(s) {
				l := p.label()
				if seen[l] {
					continue
				}
				seen[l] = true
				all = append(all, p)
				next = append(next, p)
			}
		}
		frontier = next
	}
	return all
}
