// C04 — RFC 6962 wire structures, signature inputs and leaf hashes are byte-exact.
//
// Engine B (bounded-exhaustive enumeration). Every RFC 6962 section 3 structure
// is built at every combination of its fields' boundary alphabets, encoded by
// the library (tls.Marshal on the exported ct / x509 types and the helper
// functions that wrap it) and by the independent reference codec ref/ct6962, and
// the two byte strings are compared. Every valid encoding is then mutated
// (every proper prefix, one trailing byte, every length prefix +-1 alone and
// compensated at the end, 0 and all-ones lengths, every type / version code
// replaced) and every resulting byte string is decoded by the library's plain
// and complete-parse decoders and by the reference's strict reader; accept set,
// decoded value, remainder and re-encoding must agree.
package c04

import (
	"fmt"
	"sort"
	"sync"
	"sync/atomic"
	"testing"

	"verif/engine/enum"
	"verif/engine/rep"
	ref "verif/ref/ct6962"
)

type checker struct {
	r      *rep.R
	th     bool
	counts sync.Map // api -> *atomic.Int64
}

type caseDesc struct {
	API    string `json:"api"`
	Struct string `json:"structure,omitempty"`
	Value  string `json:"value,omitempty"`
	Mut    string `json:"mutation,omitempty"`
	Input  string `json:"input_hex,omitempty"`
	Lib    string `json:"library"`
	Ref    string `json:"reference"`
}

// ----------------------------------------------------------------------------
// patterns

var patCache sync.Map

// pat returns n bytes b[i] = seed + 13*i (shared, read-only).
func pat(n int, seed byte) []byte {
	if n < 0 {
		return nil
	}
	key := [2]int{n, int(seed)}
	if v, ok := patCache.Load(key); ok {
		return v.([]byte)
	}
	b := make([]byte, n)
	x := seed
	for i := range b {
		b[i] = x
		x += 13
	}
	patCache.Store(key, b)
	return b
}

func pat32(seed byte) (out [32]byte) {
	copy(out[:], pat(32, seed))
	return
}

// ----------------------------------------------------------------------------
// mutation family

type edit struct {
	id   string
	off  int
	w    int
	val  uint64
	json bool // sets a LogEntryType to 0x8000, the library's documented JSON-entry extension
}

type mut struct {
	id     string
	b      []byte
	prefix bool // a proper prefix of a valid encoding
	json   bool
}

func getU(b []byte, off, w int) uint64 {
	var x uint64
	for i := 0; i < w; i++ {
		x = x<<8 | uint64(b[off+i])
	}
	return x
}

func putU(b []byte, off, w int, x uint64) {
	for i := w - 1; i >= 0; i-- {
		b[off+i] = byte(x)
		x >>= 8
	}
}

func mask(w int) uint64 { return uint64(1)<<(8*uint(w)) - 1 }

func isSuffix(s, suf string) bool { return len(s) >= len(suf) && s[len(s)-len(suf):] == suf }

// pointEdits lists the single-field replacements applied to a valid encoding.
func pointEdits(e []byte, marks []ref.Mark) []edit {
	var out []edit
	add := func(m ref.Mark, what string, v uint64, json bool) {
		v &= mask(m.Width)
		if v == getU(e, m.Off, m.Width) {
			return
		}
		out = append(out, edit{id: fmt.Sprintf("%s@%d:=%s", m.Name, m.Off, what), off: m.Off, w: m.Width, val: v, json: json})
	}
	for _, m := range marks {
		cur := getU(e, m.Off, m.Width)
		switch m.Kind {
		case ref.MarkLength:
			add(m, "len+1", cur+1, false)
			add(m, "len-1", cur-1, false)
			add(m, "0", 0, false)
			add(m, "max", mask(m.Width), false)
		case ref.MarkEnum:
			switch {
			case isSuffix(m.Name, "version"):
				add(m, "1", 1, false)
				add(m, "255", 255, false)
			case m.Name == "leaf_type":
				add(m, "1", 1, false)
				add(m, "255", 255, false)
			case m.Name == "entry_type":
				add(m, "other", cur^1, false)
				add(m, "2", 2, false)
				add(m, "0x00ff", 0xff, false)
				add(m, "0x0100", 0x100, false)
				add(m, "0x8000", 0x8000, true)
				add(m, "0xffff", 0xffff, false)
			case m.Name == "signature_type":
				for _, v := range []uint64{0, 1, 2, 255} {
					add(m, fmt.Sprint(v), v, false)
				}
			default: // algorithm codes: every value is a code; shift by one
				add(m, "+1", cur+1, false)
			}
		}
	}
	return out
}

func applyEdits(e []byte, eds []edit, tail int) mut {
	n := len(e)
	var b []byte
	switch tail {
	case 1, 2:
		b = make([]byte, n+1)
		copy(b, e)
		if tail == 2 {
			b[n] = 0xff
		}
	case -1:
		b = append([]byte(nil), e[:n-1]...)
	default:
		b = append([]byte(nil), e...)
	}
	m := mut{}
	for i, ed := range eds {
		if ed.off+ed.w <= len(b) {
			putU(b, ed.off, ed.w, ed.val)
		}
		if i > 0 {
			m.id += " & "
		}
		m.id += ed.id
		m.json = m.json || ed.json
	}
	switch tail {
	case 1:
		m.id += " & +00"
	case 2:
		m.id += " & +ff"
	case -1:
		m.id += " & drop-last"
	}
	m.b = b
	return m
}

// family builds the mutated inputs derived from the valid encoding e. lean is
// used for multi-megabyte encodings: boundary cuts and length edits only.
func (c *checker) family(e []byte, marks []ref.Mark, lean bool) []mut {
	n := len(e)
	var out []mut
	// proper prefixes
	cuts := map[int]bool{}
	if n <= 128 {
		for i := 0; i < n; i++ {
			cuts[i] = true
		}
	} else {
		lim := 40
		if lean {
			lim = 4
		}
		for i := 0; i <= lim; i++ {
			cuts[i] = true
		}
		for _, m := range marks {
			for _, p := range []int{m.Off - 1, m.Off, m.Off + 1, m.Off + m.Width - 1, m.Off + m.Width, m.Off + m.Width + 1} {
				cuts[p] = true
			}
		}
		for i := n - 3; i < n; i++ {
			cuts[i] = true
		}
	}
	var cl []int
	for p := range cuts {
		if p >= 0 && p < n {
			cl = append(cl, p)
		}
	}
	sort.Ints(cl)
	for _, p := range cl {
		out = append(out, mut{id: fmt.Sprintf("prefix[:%d]", p), b: e[:p:p], prefix: true})
	}
	out = append(out, applyEdits(e, nil, 1), applyEdits(e, nil, 2))
	out[len(out)-2].id, out[len(out)-1].id = "+00", "+ff"
	eds := pointEdits(e, marks)
	for _, ed := range eds {
		if lean && ed.json {
			continue
		}
		out = append(out, applyEdits(e, []edit{ed}, 0))
		if isSuffix(ed.id, "len+1") {
			out = append(out, applyEdits(e, []edit{ed}, 1))
		}
		if isSuffix(ed.id, "len-1") && n > 0 {
			out = append(out, applyEdits(e, []edit{ed}, -1))
		}
	}
	if c.th && !lean {
		// every byte of the first 48 +1 and -1 (fixed fields, data bytes, and again the prefixes)
		for i := 0; i < n && i < 48; i++ {
			for _, d := range []uint64{1, 0xff} {
				out = append(out, applyEdits(e, []edit{{id: fmt.Sprintf("byte@%d+%#x", i, d), off: i, w: 1, val: (uint64(e[i]) + d) & 0xff,
					json: i+1 < n && (uint64(e[i])+d)&0xff == 0x80 && e[i+1] == 0}}, 0))
			}
		}
		// two mutations instead of one: every pair of point edits on different fields, bare and with each tail
		for i := 0; i < len(eds); i++ {
			for j := i + 1; j < len(eds); j++ {
				if eds[i].off == eds[j].off {
					continue
				}
				pair := []edit{eds[i], eds[j]}
				out = append(out, applyEdits(e, pair, 0))
				if n <= 4096 {
					out = append(out, applyEdits(e, pair, 1), applyEdits(e, pair, -1))
				}
			}
		}
	}
	return out
}

// ----------------------------------------------------------------------------
// generic structure binding

type binding[R any] struct {
	name   string
	st     ref.Structure
	enc    func(R) ([]byte, error)
	read   func([]byte) (R, int, error)
	libEnc func(R) ([]byte, error)
	// libDec runs the library's plain decoder: decoded value (converted to the
	// reference representation; problem != "" when the library's struct is not
	// even well formed), the remainder and a re-encoder of what was decoded.
	libDec func([]byte) (v R, problem string, rest []byte, reenc func() ([]byte, error), err error)
	eq     func(a, b R) bool
	show   func(R) string
	// onValue runs the extra per-value oracles (helper functions, hashes, complete-parse APIs on the valid encoding).
	onValue func(c *checker, vid string, v R, encd []byte, valid bool)
	// onInput runs the complete-parse APIs on one (mutated) input.
	onInput                func(c *checker, vid string, m mut)
	plainDecodeIsExtension bool
}

// count keeps per-API evaluation counters (sharded to keep the reporter's lock cold).
func (c *checker) count(api string) {
	v, _ := c.counts.LoadOrStore(api, new(atomic.Int64))
	v.(*atomic.Int64).Add(1)
}

func (c *checker) nontrivial(api, structure, vid, mid string) {
	c.r.Nontrivial(api + "|" + structure + "|" + vid + "|" + mid)
}

// encodeBoth compares the library's and the reference's encoding of v.
func encodeBoth[R any](c *checker, bd *binding[R], v R) (encd []byte, ok bool) {
	c.r.Eval(1)
	c.count("tls.Marshal " + bd.name)
	want, rerr := bd.enc(v)
	var got []byte
	var lerr error
	pan, msg, stack := enum.Catch(func() { got, lerr = bd.libEnc(v) })
	cd := caseDesc{API: "tls.Marshal", Struct: bd.name, Value: bd.show(v),
		Lib: fmt.Sprintf("%s err=%v", rep.Hex(got), lerr), Ref: fmt.Sprintf("%s err=%v", rep.Hex(want), rerr)}
	if pan {
		c.r.Violation("encode-panic "+bd.name, "tls.Marshal panicked: "+msg+"\n"+stack, cd)
		return nil, false
	}
	c.nontrivial("encode", bd.name, bd.show(v), "")
	// the decode family is derived from the reference's encoding whatever the library's encoder did
	if (rerr == nil) != (lerr == nil) {
		c.r.Violation(fmt.Sprintf("encode-accept-mismatch %s lib_accepts=%v ref=%s", bd.name, lerr == nil, ref.Class(rerr)),
			fmt.Sprintf("%s %s: library err=%v, reference err=%v", bd.name, bd.show(v), lerr, rerr), cd)
		return want, rerr == nil
	}
	if rerr != nil {
		return nil, false
	}
	if string(got) != string(want) {
		c.r.Violation("encode-bytes-mismatch "+bd.name,
			fmt.Sprintf("%s %s: library %s, reference %s (first difference at byte %d)", bd.name, bd.show(v), rep.Hex(got), rep.Hex(want), firstDiff(got, want)), cd)
	}
	return want, true
}

func firstDiff(a, b []byte) int {
	for i := 0; i < len(a) && i < len(b); i++ {
		if a[i] != b[i] {
			return i
		}
	}
	if len(a) < len(b) {
		return len(a)
	}
	return len(b)
}

// decodeBoth compares the library's plain decoder (tls.Unmarshal, which by
// contract returns the remainder) with the reference's strict prefix reader.
func decodeBoth[R any](c *checker, bd *binding[R], vid string, m mut) {
	if m.json {
		// LogEntryType 0x8000 selects the library's JSONDataEntry extension in the
		// plain decoder; the complete-parse APIs must still refuse it (onInput).
		c.r.Add("plain_decodes_skipped_json_entry_extension", 1)
		return
	}
	c.r.Eval(1)
	c.count("tls.Unmarshal " + bd.name)
	rv, rn, rerr := bd.read(m.b)
	var lv R
	var problem string
	var rest []byte
	var reenc func() ([]byte, error)
	var lerr error
	pan, msg, stack := enum.Catch(func() { lv, problem, rest, reenc, lerr = bd.libDec(m.b) })
	cd := func(lib, rf string) caseDesc {
		return caseDesc{API: "tls.Unmarshal", Struct: bd.name, Value: vid, Mut: m.id, Input: rep.Hex(m.b), Lib: lib, Ref: rf}
	}
	if pan {
		c.r.Violation("decode-panic "+bd.name, "tls.Unmarshal panicked: "+msg+"\n"+stack, cd("panic: "+msg, fmt.Sprint(rerr)))
		return
	}
	if !m.prefix {
		c.nontrivial("decode", bd.name, vid, m.id)
	}
	if (rerr == nil) != (lerr == nil) {
		c.r.Violation(fmt.Sprintf("decode-accept-mismatch %s lib_accepts=%v ref=%s", bd.name, lerr == nil, ref.Class(rerr)),
			fmt.Sprintf("%s from %s, mutation %s (%d bytes): library err=%v, reference err=%v", bd.name, vid, m.id, len(m.b), lerr, rerr),
			cd(fmt.Sprint(lerr), fmt.Sprint(rerr)))
		return
	}
	if rerr != nil {
		return
	}
	if problem != "" {
		c.r.Violation("decode-value-mismatch "+bd.name, fmt.Sprintf("%s from %s, mutation %s: library result ill-formed: %s", bd.name, vid, m.id, problem),
			cd(problem, bd.show(rv)))
		return
	}
	if !bd.eq(lv, rv) {
		c.r.Violation("decode-value-mismatch "+bd.name, fmt.Sprintf("%s from %s, mutation %s: library decoded %s, reference %s", bd.name, vid, m.id, bd.show(lv), bd.show(rv)),
			cd(bd.show(lv), bd.show(rv)))
		return
	}
	if string(rest) != string(m.b[rn:]) {
		c.r.Violation("decode-rest-mismatch "+bd.name, fmt.Sprintf("%s from %s, mutation %s: library left %d bytes, reference %d", bd.name, vid, m.id, len(rest), len(m.b)-rn),
			cd(rep.Hex(rest), rep.Hex(m.b[rn:])))
		return
	}
	var re []byte
	var merr error
	pan, msg, stack = enum.Catch(func() { re, merr = reenc() })
	if pan {
		c.r.Violation("encode-panic "+bd.name, "tls.Marshal panicked on a decoded value: "+msg+"\n"+stack, cd("panic: "+msg, ""))
		return
	}
	if merr != nil || string(re) != string(m.b[:rn]) {
		c.r.Violation("reencode-mismatch "+bd.name, fmt.Sprintf("%s from %s, mutation %s decodes but re-encodes to %s (err=%v)", bd.name, vid, m.id, rep.Hex(re), merr),
			cd(rep.Hex(re), rep.Hex(m.b[:rn])))
	}
}

// runValue is the whole treatment of one value of one structure.
func runValue[R any](c *checker, bd *binding[R], v R) {
	vid := bd.show(v)
	encd, ok := encodeBoth(c, bd, v)
	if bd.onValue != nil {
		bd.onValue(c, vid, v, encd, ok)
	}
	if !ok {
		return
	}
	marks, n, err := ref.Layout(bd.st, encd)
	if err != nil || n != len(encd) {
		panic(fmt.Sprintf("harness bug: reference cannot read its own encoding of %s %s: n=%d len=%d err=%v", bd.name, vid, n, len(encd), err))
	}
	lean := len(encd) > 1<<20
	id := mut{id: "identity", b: encd}
	decodeBoth(c, bd, vid, id)
	if bd.onInput != nil {
		bd.onInput(c, vid, id)
	}
	fam := c.family(encd, marks, lean)
	c.r.Add("mutated_inputs", int64(len(fam)))
	for _, m := range fam {
		decodeBoth(c, bd, vid, m)
		if bd.onInput != nil {
			bd.onInput(c, vid, m)
		}
	}
	if sampleOf[bd.name] && len(encd) > 12 && len(encd) < 200 && firstSample(bd.name) {
		c.r.Sample(map[string]any{"structure": bd.name, "value": vid, "reference_encoding": rep.Hex(encd), "mutated_inputs": len(fam)})
	}
}

var sampled sync.Map

func firstSample(name string) bool { _, dup := sampled.LoadOrStore(name, true); return !dup }

var sampleOf = map[string]bool{"MerkleTreeLeaf": true, "SignedCertificateTimestamp": true, "DigitallySigned": true,
	"SignedCertificateTimestampList": true, "PrecertChainEntry": true, "TreeHeadSignature": true}

// job is one unit of parallel work.
type job struct {
	cost int // bigger first
	name string
	run  func()
}

func addJobs[R any](jobs *[]job, c *checker, bd *binding[R], vals []R, cost func(R) int) {
	for _, v := range vals {
		v := v
		*jobs = append(*jobs, job{cost: cost(v), name: bd.name + " " + bd.show(v), run: func() { runValue(c, bd, v) }})
	}
	c.r.Add("values_"+bd.name, int64(len(vals)))
}

func TestCheck(t *testing.T) {
	r := rep.New("C04", "exploration")
	c := &checker{r: r, th: r.Thorough()}
	r.Rule("every RFC 6962 s3 structure (DigitallySigned, TimestampedEntry, MerkleTreeLeaf, SCT, CertificateTimestamp, TreeHeadSignature, SCT list, CertificateChain, PrecertChainEntry, the two chain-hash storage variants) x the product of its fields' boundary alphabets (timestamps {0,1,2^32,2^63,2^64-1,0x0102..08}; extensions/signature lengths {0,1,255,256,65535,65536}; cert/TBS lengths {0,1,255,256,65535,65536,2^24-1,2^24}; SCT-list totals up to 65535/65536; both entry types; all 256x256 algorithm codes; chains of 0,1,3 certs) encoded by library and reference; every valid encoding x {every proper prefix (boundary cuts for encodings > 128 bytes), +00, +ff, every length prefix +1/-1 alone and compensated by a tail byte, :=0, :=all-ones, every version/leaf-type/entry-type/signature-type code replaced; thorough: also every one of the first 48 bytes +1/-1 and every pair of field edits, bare and with each tail} decoded by tls.Unmarshal and by every complete-parse API; the two signature-input serialisers, the verifiers, LeafHashForLeaf, the JSON messages. distinct_nontrivial = distinct (API, structure, value, mutation) cases other than plain proper-prefix cuts")
	r.Assume("Version and SignatureType bytes are carried, not judged, by the plain codec; only the signature-input serialisers must refuse versions other than v1 (as the property states)",
		"LogEntryType 0x8000 (the library's documented experimental JSONDataEntry arm) is outside RFC 6962: plain tls.Unmarshal inputs carrying it are not compared; RawLogEntryFromLeaf, LogEntryFromLeaf and SerializeSCTSignatureInput must refuse it",
		"CertificateChainHash / PrecertChainEntryHash are library storage layouts, not RFC structures; their reference layout follows the documentation in types.go (opaque<0..256>, 2-byte length)",
		"SerializeSCTSignatureInput is only given log entries whose selected arm is non-nil (a LogEntry that tls.Marshal itself would refuse is API misuse, not wire input)",
		"base64 text is judged per RFC 4648 s4 (standard alphabet, padded); embedded CR/LF, which Go's decoder skips, are not generated")

	var jobs []job
	c.wireJobs(&jobs)
	c.sigInputJobs(&jobs)
	c.jsonJobs(&jobs)
	sort.SliceStable(jobs, func(i, j int) bool { return jobs[i].cost > jobs[j].cost })
	r.Set("jobs", len(jobs))
	done := enum.ParFor(len(jobs), r.Expired, func(i int) {
		pan, msg, stack := enum.Catch(jobs[i].run)
		if pan {
			r.Violation("harness-panic", msg+"\n"+stack, jobs[i].name)
		}
	})
	if !done {
		r.Capped("deadline reached before all values were run")
	}
	per := map[string]int64{}
	c.counts.Range(func(k, v any) bool { per[k.(string)] = v.(*atomic.Int64).Load(); return true })
	r.Set("evaluations_per_api", per)
	r.Finish()
}
