package c04

// Bindings of every RFC 6962 s3 structure to the library's types and helper
// functions, the value alphabets, and the complete-parse oracles.

import (
	"crypto/ecdsa"
	"crypto/elliptic"
	"crypto/rand"
	"crypto/sha256"
	stdx509 "crypto/x509"
	"crypto/x509/pkix"
	"encoding/asn1"
	"encoding/pem"
	"fmt"
	"math/big"
	"time"

	"verif/engine/enum"
	"verif/engine/rep"
	ref "verif/ref/ct6962"

	ct "github.com/google/certificate-transparency-go"
	"github.com/google/certificate-transparency-go/tls"
	ctutil "github.com/google/certificate-transparency-go/trillian/util"
	ctx509 "github.com/google/certificate-transparency-go/x509"
	"github.com/google/certificate-transparency-go/x509util"
)

// ----------------------------------------------------------------------------
// a real certificate (stdlib-made) for the positive path of LogEntryFromLeaf and
// as the carrier of SCT-list extensions

var (
	testKey  *ecdsa.PrivateKey
	realCert []byte // DER certificate
	realTBS  []byte // its TBSCertificate
)

var oidSCTList = asn1.ObjectIdentifier{1, 3, 6, 1, 4, 1, 11129, 2, 4, 2}

func makeCert(extra []pkix.Extension) []byte {
	tmpl := &stdx509.Certificate{
		SerialNumber:    big.NewInt(0x0c04),
		Subject:         pkix.Name{CommonName: "c04.verif.example"},
		NotBefore:       time.Date(2020, 1, 1, 0, 0, 0, 0, time.UTC),
		NotAfter:        time.Date(2040, 1, 1, 0, 0, 0, 0, time.UTC),
		DNSNames:        []string{"c04.verif.example"},
		ExtraExtensions: extra,
	}
	der, err := stdx509.CreateCertificate(rand.Reader, tmpl, tmpl, &testKey.PublicKey, testKey)
	if err != nil {
		panic("harness: cannot create certificate: " + err.Error())
	}
	return der
}

func init() {
	var err error
	testKey, err = ecdsa.GenerateKey(elliptic.P256(), rand.Reader)
	if err != nil {
		panic(err)
	}
	realCert = makeCert(nil)
	p, err := stdx509.ParseCertificate(realCert)
	if err != nil {
		panic(err)
	}
	realTBS = p.RawTBSCertificate
}

// certWithSCTList wraps list (the raw TLS bytes) in the RFC 6962 s3.3 extension
// (an OCTET STRING inside the extension value) of a fresh certificate.
func certWithSCTList(list []byte) []byte {
	val, err := asn1.Marshal(list)
	if err != nil {
		panic(err)
	}
	return makeCert([]pkix.Extension{{Id: oidSCTList, Value: val}})
}

// ----------------------------------------------------------------------------
// conversions reference <-> library

func libDS(d ref.DigitallySigned) tls.DigitallySigned {
	return tls.DigitallySigned{Algorithm: tls.SignatureAndHashAlgorithm{Hash: tls.HashAlgorithm(d.Hash), Signature: tls.SignatureAlgorithm(d.Sig)}, Signature: d.Signature}
}

func refDS(d tls.DigitallySigned) (ref.DigitallySigned, string) {
	if d.Algorithm.Hash > 255 || d.Algorithm.Signature > 255 {
		return ref.DigitallySigned{}, fmt.Sprintf("algorithm codes %d,%d exceed one byte", d.Algorithm.Hash, d.Algorithm.Signature)
	}
	return ref.DigitallySigned{Hash: uint8(d.Algorithm.Hash), Sig: uint8(d.Algorithm.Signature), Signature: d.Signature}, ""
}

func libSigned(e ref.SignedEntry) (x *ct.ASN1Cert, p *ct.PreCert) {
	switch e.EntryType {
	case ref.X509Entry:
		x = &ct.ASN1Cert{Data: e.Cert}
	case ref.PrecertEntry:
		p = &ct.PreCert{IssuerKeyHash: e.IssuerKeyHash, TBSCertificate: e.TBS}
	}
	return
}

func refSigned(et ct.LogEntryType, x *ct.ASN1Cert, p *ct.PreCert, j *ct.JSONDataEntry) (ref.SignedEntry, string) {
	if et > 65535 {
		return ref.SignedEntry{}, fmt.Sprintf("entry type %d exceeds two bytes", et)
	}
	e := ref.SignedEntry{EntryType: uint16(et)}
	switch e.EntryType {
	case ref.X509Entry:
		if x == nil || p != nil || j != nil {
			return e, fmt.Sprintf("x509_entry with arms X509Entry=%v PrecertEntry=%v JSONEntry=%v", x != nil, p != nil, j != nil)
		}
		e.Cert = x.Data
	case ref.PrecertEntry:
		if p == nil || x != nil || j != nil {
			return e, fmt.Sprintf("precert_entry with arms X509Entry=%v PrecertEntry=%v JSONEntry=%v", x != nil, p != nil, j != nil)
		}
		e.IssuerKeyHash, e.TBS = p.IssuerKeyHash, p.TBSCertificate
	default:
		return e, fmt.Sprintf("entry type %d decoded", et)
	}
	return e, ""
}

func libTE(e ref.TimestampedEntry) *ct.TimestampedEntry {
	out := &ct.TimestampedEntry{Timestamp: e.Timestamp, EntryType: ct.LogEntryType(e.EntryType), Extensions: ct.CTExtensions(e.Extensions)}
	out.X509Entry, out.PrecertEntry = libSigned(e.SignedEntry)
	return out
}

func refTE(e *ct.TimestampedEntry) (ref.TimestampedEntry, string) {
	if e == nil {
		return ref.TimestampedEntry{}, "TimestampedEntry is nil"
	}
	se, prob := refSigned(e.EntryType, e.X509Entry, e.PrecertEntry, e.JSONEntry)
	return ref.TimestampedEntry{Timestamp: e.Timestamp, SignedEntry: se, Extensions: e.Extensions}, prob
}

func libLeaf(l ref.MerkleTreeLeaf) ct.MerkleTreeLeaf {
	out := ct.MerkleTreeLeaf{Version: ct.Version(l.Version), LeafType: ct.MerkleLeafType(l.LeafType)}
	if l.LeafType == ref.TimestampedEntryLeaf {
		out.TimestampedEntry = libTE(l.Entry)
	}
	return out
}

func refLeaf(l *ct.MerkleTreeLeaf) (ref.MerkleTreeLeaf, string) {
	if l.Version > 255 || l.LeafType > 255 {
		return ref.MerkleTreeLeaf{}, fmt.Sprintf("version %d / leaf type %d exceed one byte", l.Version, l.LeafType)
	}
	te, prob := refTE(l.TimestampedEntry)
	return ref.MerkleTreeLeaf{Version: uint8(l.Version), LeafType: uint8(l.LeafType), Entry: te}, prob
}

func libSCT(s ref.SCT) ct.SignedCertificateTimestamp {
	return ct.SignedCertificateTimestamp{SCTVersion: ct.Version(s.Version), LogID: ct.LogID{KeyID: s.LogID}, Timestamp: s.Timestamp,
		Extensions: ct.CTExtensions(s.Extensions), Signature: ct.DigitallySigned(libDS(s.Signature))}
}

func refSCT(s *ct.SignedCertificateTimestamp) (ref.SCT, string) {
	if s.SCTVersion > 255 {
		return ref.SCT{}, fmt.Sprintf("version %d exceeds one byte", s.SCTVersion)
	}
	ds, prob := refDS(tls.DigitallySigned(s.Signature))
	return ref.SCT{Version: uint8(s.SCTVersion), LogID: s.LogID.KeyID, Timestamp: s.Timestamp, Extensions: s.Extensions, Signature: ds}, prob
}

func libCerts(chain [][]byte) []ct.ASN1Cert {
	out := make([]ct.ASN1Cert, len(chain))
	for i, c := range chain {
		out[i] = ct.ASN1Cert{Data: c}
	}
	return out
}

func refCerts(chain []ct.ASN1Cert) [][]byte {
	out := make([][]byte, len(chain))
	for i, c := range chain {
		out[i] = c.Data
	}
	return out
}

// ----------------------------------------------------------------------------
// printing values

func showB(b []byte) string {
	if len(b) <= 4 {
		return fmt.Sprintf("%x", b)
	}
	return fmt.Sprintf("%dB:%02x%02x..%02x", len(b), b[0], b[1], b[len(b)-1])
}

func showBB(bs [][]byte) string {
	s := "["
	for i, b := range bs {
		if i > 0 {
			s += " "
		}
		s += showB(b)
	}
	return s + "]"
}

func showSigned(e ref.SignedEntry) string {
	switch e.EntryType {
	case ref.X509Entry:
		return "x509 cert=" + showB(e.Cert)
	case ref.PrecertEntry:
		return fmt.Sprintf("precert ikh=%02x.. tbs=%s", e.IssuerKeyHash[0], showB(e.TBS))
	}
	return fmt.Sprintf("entry_type=%d", e.EntryType)
}

func showDS(d ref.DigitallySigned) string {
	return fmt.Sprintf("ds{hash=%d sig=%d signature=%s}", d.Hash, d.Sig, showB(d.Signature))
}

func showTE(e ref.TimestampedEntry) string {
	return fmt.Sprintf("te{ts=%#x %s ext=%s}", e.Timestamp, showSigned(e.SignedEntry), showB(e.Extensions))
}

func showLeaf(l ref.MerkleTreeLeaf) string {
	return fmt.Sprintf("leaf{v=%d lt=%d %s}", l.Version, l.LeafType, showTE(l.Entry))
}

func showSCT(s ref.SCT) string {
	return fmt.Sprintf("sct{v=%d id=%02x.. ts=%#x ext=%s %s}", s.Version, s.LogID[0], s.Timestamp, showB(s.Extensions), showDS(s.Signature))
}

// ----------------------------------------------------------------------------
// complete-parse comparison

// strict compares one call of an API that promises a complete parse with the
// reference's verdict rerr; same() reports a difference in the result ("" = equal).
func (c *checker) strict(api, st, vid string, m mut, rerr error, call func() error, same func() string) {
	c.r.Eval(1)
	c.count(api)
	var lerr error
	pan, msg, stack := enum.Catch(func() { lerr = call() })
	cd := caseDesc{API: api, Struct: st, Value: vid, Mut: m.id, Input: rep.Hex(m.b), Lib: fmt.Sprint(lerr), Ref: fmt.Sprint(rerr)}
	if pan {
		cd.Lib = "panic: " + msg
		c.r.Violation("panic "+api, api+" panicked: "+msg+"\n"+stack, cd)
		return
	}
	if !m.prefix {
		c.nontrivial(api, st, vid, m.id)
	}
	if (rerr == nil) != (lerr == nil) {
		c.r.Violation(fmt.Sprintf("complete-parse-accept-mismatch %s lib_accepts=%v ref=%s", api, lerr == nil, ref.Class(rerr)),
			fmt.Sprintf("%s on %s from %s, mutation %s (%d bytes): library err=%v, reference err=%v", api, st, vid, m.id, len(m.b), lerr, rerr), cd)
		return
	}
	if rerr == nil && same != nil {
		if d := same(); d != "" {
			cd.Lib = d
			c.r.Violation("complete-parse-value-mismatch "+api, fmt.Sprintf("%s on %s from %s, mutation %s: %s", api, st, vid, m.id, d), cd)
		}
	}
}

// helper compares the output of a library helper that wraps the encoder.
func (c *checker) helper(api, st, vid string, want []byte, valid bool, call func() ([]byte, error)) {
	c.r.Eval(1)
	c.count(api)
	var got []byte
	var lerr error
	pan, msg, stack := enum.Catch(func() { got, lerr = call() })
	cd := caseDesc{API: api, Struct: st, Value: vid, Lib: fmt.Sprintf("%s err=%v", rep.Hex(got), lerr), Ref: fmt.Sprintf("%s valid=%v", rep.Hex(want), valid)}
	if pan {
		c.r.Violation("panic "+api, api+" panicked: "+msg+"\n"+stack, cd)
		return
	}
	c.nontrivial(api, st, vid, "")
	if valid != (lerr == nil) {
		c.r.Violation(fmt.Sprintf("helper-accept-mismatch %s lib_accepts=%v", api, lerr == nil), fmt.Sprintf("%s on %s: library err=%v, reference valid=%v", api, vid, lerr, valid), cd)
		return
	}
	if valid && string(got) != string(want) {
		c.r.Violation("helper-bytes-mismatch "+api, fmt.Sprintf("%s on %s: library %s, reference %s (first difference at byte %d)", api, vid, rep.Hex(got), rep.Hex(want), firstDiff(got, want)), cd)
	}
}

// ----------------------------------------------------------------------------
// alphabets

func (c *checker) timestamps() []uint64 {
	t := []uint64{0, 1, 1 << 32, 1 << 63, ^uint64(0), 0x0102030405060708}
	if c.th {
		t = append(t, 255, 1<<32-1, 1<<53+1, 1<<63-1)
	}
	return t
}

func (c *checker) extLens() []int {
	l := []int{0, 1, 255, 256, 65535, 65536}
	if c.th {
		l = append(l, 2, 254, 257, 65534, 65537)
	}
	return l
}

func (c *checker) certLens() []int {
	l := []int{0, 1, 255, 256, 65535, 65536}
	if c.th {
		l = append(l, 2, 254, 257, 65534, 65537)
	}
	return l
}

// hugeLens are used one value at a time (never in products).
func (c *checker) hugeLens() []int {
	l := []int{1<<24 - 1, 1 << 24}
	if c.th {
		l = append(l, 1<<24-2, 1<<24+1)
	}
	return l
}

const (
	seedCert = 0x31
	seedTBS  = 0x52
	seedIKH  = 0xa0
	seedExt  = 0xe1
	seedSig  = 0x77
	seedID   = 0xc5
	seedRoot = 0x9b
)

func signed(et uint16, n int) ref.SignedEntry {
	switch et {
	case ref.X509Entry:
		return ref.SignedEntry{EntryType: et, Cert: pat(n, seedCert)}
	case ref.PrecertEntry:
		return ref.SignedEntry{EntryType: et, IssuerKeyHash: pat32(seedIKH), TBS: pat(n, seedTBS)}
	}
	return ref.SignedEntry{EntryType: et}
}

func realSigned(et uint16) ref.SignedEntry {
	if et == ref.X509Entry {
		return ref.SignedEntry{EntryType: et, Cert: realCert}
	}
	return ref.SignedEntry{EntryType: et, IssuerKeyHash: pat32(seedIKH), TBS: realTBS}
}

func isReal(e ref.SignedEntry) bool {
	return (e.EntryType == ref.X509Entry && string(e.Cert) == string(realCert)) || (e.EntryType == ref.PrecertEntry && string(e.TBS) == string(realTBS))
}

func (c *checker) leafValues() []ref.MerkleTreeLeaf {
	var out []ref.MerkleTreeLeaf
	for _, ts := range c.timestamps() {
		for _, et := range []uint16{ref.X509Entry, ref.PrecertEntry} {
			for _, cl := range c.certLens() {
				for _, el := range c.extLens() {
					out = append(out, ref.MerkleTreeLeaf{Entry: ref.TimestampedEntry{Timestamp: ts, SignedEntry: signed(et, cl), Extensions: pat(el, seedExt)}})
				}
			}
		}
	}
	for _, et := range []uint16{ref.X509Entry, ref.PrecertEntry} {
		// other version bytes, real certificate contents, huge lengths
		for _, v := range []uint8{1, 2, 255} {
			for _, cl := range []int{1, 256} {
				for _, el := range []int{0, 1} {
					out = append(out, ref.MerkleTreeLeaf{Version: v, Entry: ref.TimestampedEntry{Timestamp: 0x0102030405060708, SignedEntry: signed(et, cl), Extensions: pat(el, seedExt)}})
				}
			}
		}
		for _, el := range []int{0, 3} {
			out = append(out, ref.MerkleTreeLeaf{Entry: ref.TimestampedEntry{Timestamp: 1500000000000, SignedEntry: realSigned(et), Extensions: pat(el, seedExt)}})
		}
		for _, cl := range c.hugeLens() {
			els := []int{0}
			if c.th {
				els = []int{0, 65535}
			}
			for _, el := range els {
				out = append(out, ref.MerkleTreeLeaf{Entry: ref.TimestampedEntry{Timestamp: 1 << 40, SignedEntry: signed(et, cl), Extensions: pat(el, seedExt)}})
			}
		}
	}
	// values with no encoding: undeclared type codes
	for _, et := range []uint16{2, 0x00ff, 0x0100, 0x8000, 0xffff} {
		out = append(out, ref.MerkleTreeLeaf{Entry: ref.TimestampedEntry{Timestamp: 7, SignedEntry: ref.SignedEntry{EntryType: et}}})
	}
	for _, lt := range []uint8{1, 255} {
		out = append(out, ref.MerkleTreeLeaf{LeafType: lt, Entry: ref.TimestampedEntry{Timestamp: 7, SignedEntry: signed(ref.X509Entry, 3)}})
	}
	return out
}

func (c *checker) teValues() []ref.TimestampedEntry {
	var out []ref.TimestampedEntry
	for _, ts := range []uint64{0x0102030405060708, ^uint64(0)} {
		for _, et := range []uint16{ref.X509Entry, ref.PrecertEntry} {
			for _, cl := range c.certLens() {
				for _, el := range c.extLens() {
					out = append(out, ref.TimestampedEntry{Timestamp: ts, SignedEntry: signed(et, cl), Extensions: pat(el, seedExt)})
				}
			}
		}
	}
	for _, et := range []uint16{2, 0x8000, 0xffff} {
		out = append(out, ref.TimestampedEntry{Timestamp: 7, SignedEntry: ref.SignedEntry{EntryType: et}})
	}
	return out
}

func (c *checker) ctsValues() []ref.CertificateTimestamp {
	var out []ref.CertificateTimestamp
	cls, els := []int{0, 1, 256, 65536}, []int{0, 255, 65535, 65536}
	if c.th {
		cls, els = c.certLens(), c.extLens()
	}
	for _, v := range []uint8{0, 1, 255} {
		for _, st := range []uint8{0, 1, 255} {
			for _, ts := range []uint64{0x0102030405060708, 1 << 63} {
				for _, et := range []uint16{ref.X509Entry, ref.PrecertEntry} {
					for _, cl := range cls {
						for _, el := range els {
							out = append(out, ref.CertificateTimestamp{Version: v, SignatureType: st, Timestamp: ts, SignedEntry: signed(et, cl), Extensions: pat(el, seedExt)})
						}
					}
				}
			}
		}
	}
	return out
}

var dsAlgos = [][2]uint8{{4, 3}, {4, 1}, {0, 0}, {6, 2}, {1, 0}, {255, 255}}

func (c *checker) dsValues() []ref.DigitallySigned {
	var out []ref.DigitallySigned
	for h := 0; h < 256; h++ {
		for s := 0; s < 256; s++ {
			for _, n := range []int{0, 1} {
				out = append(out, ref.DigitallySigned{Hash: uint8(h), Sig: uint8(s), Signature: pat(n, seedSig)})
			}
		}
	}
	for _, a := range dsAlgos {
		for _, n := range c.extLens() {
			if n > 1 {
				out = append(out, ref.DigitallySigned{Hash: a[0], Sig: a[1], Signature: pat(n, seedSig)})
			}
		}
		out = append(out, ref.DigitallySigned{Hash: a[0], Sig: a[1], Signature: pat(72, seedSig)})
	}
	return out
}

func (c *checker) sctValues() []ref.SCT {
	var out []ref.SCT
	algos := dsAlgos[:2]
	if c.th {
		algos = dsAlgos
	}
	for _, ts := range c.timestamps() {
		for _, el := range c.extLens() {
			for _, a := range algos {
				for _, sl := range c.extLens() {
					out = append(out, ref.SCT{LogID: pat32(seedID), Timestamp: ts, Extensions: pat(el, seedExt), Signature: ref.DigitallySigned{Hash: a[0], Sig: a[1], Signature: pat(sl, seedSig)}})
				}
			}
		}
	}
	for _, v := range []uint8{1, 2, 255} {
		for _, el := range []int{0, 1} {
			out = append(out, ref.SCT{Version: v, LogID: pat32(seedID + 1), Timestamp: 0x0102030405060708, Extensions: pat(el, seedExt),
				Signature: ref.DigitallySigned{Hash: 4, Sig: 3, Signature: pat(71, seedSig)}})
		}
	}
	return out
}

func (c *checker) thsValues() []ref.TreeHeadSignature {
	var out []ref.TreeHeadSignature
	for _, v := range []uint8{0, 1, 255} {
		for _, st := range []uint8{0, 1, 255} {
			for _, ts := range c.timestamps() {
				for _, sz := range c.timestamps() {
					out = append(out, ref.TreeHeadSignature{Version: v, SignatureType: st, Timestamp: ts, TreeSize: sz, RootHash: pat32(seedRoot)})
				}
			}
		}
	}
	return out
}

// sctOfSize returns a valid encoded SCT of exactly n bytes (n >= 47).
func sctOfSize(n int, seed byte) []byte {
	rest := n - 47
	ext := 0
	if rest > 65535 {
		ext, rest = rest-65535, 65535
	}
	b, err := ref.AppendSCT(nil, ref.SCT{LogID: pat32(seed), Timestamp: 1500000000000 + uint64(seed), Extensions: pat(ext, seedExt),
		Signature: ref.DigitallySigned{Hash: 4, Sig: 3, Signature: pat(rest, seedSig)}})
	if err != nil || len(b) != n {
		panic(fmt.Sprintf("harness bug: sctOfSize(%d) -> %d bytes, err=%v", n, len(b), err))
	}
	return b
}

// sctListValues: lists of opaque elements and lists of real SCTs, with the
// list's byte total placed on each side of 65335 (the suspected typo), 65535
// (the RFC maximum) and the one-byte/two-byte boundaries.
func (c *checker) sctListValues() [][][]byte {
	var out [][][]byte
	out = append(out, [][]byte{}) // empty list: below <1..>
	single := []int{0, 1, 2, 253, 254, 255, 256, 65333, 65334, 65533, 65534, 65535}
	if c.th {
		single = append(single, 3, 257, 65332, 65335, 65532, 65536)
	}
	for _, n := range single {
		out = append(out, [][]byte{pat(n, seedCert)})
	}
	pairs := [][2]int{{1, 1}, {1, 255}, {256, 1}, {0, 5}, {5, 0}, {32700, 32631}, {32700, 32632}, {32767, 32764}, {32767, 32765}, {65533, 1}}
	for _, p := range pairs {
		out = append(out, [][]byte{pat(p[0], seedCert), pat(p[1], seedTBS)})
	}
	out = append(out, [][]byte{pat(3, 1), pat(1, 2), pat(2, 3)})
	// real SCTs: 1, 2, 3 of them and single ones sized to hit the totals
	out = append(out, [][]byte{sctOfSize(47, 1)}, [][]byte{sctOfSize(119, 1), sctOfSize(118, 2)}, [][]byte{sctOfSize(47, 1), sctOfSize(120, 2), sctOfSize(303, 3)})
	totals := []int{65335, 65336, 65535, 65536}
	if c.th {
		totals = append(totals, 65334, 65337, 65534, 65537)
	}
	for _, t := range totals {
		out = append(out, [][]byte{sctOfSize(t-2, 4)})
		out = append(out, [][]byte{sctOfSize(47, 5), sctOfSize(t-2-49, 6)})
	}
	// an element that is not an SCT next to one that is
	out = append(out, [][]byte{sctOfSize(47, 1), pat(47, 9)})
	return out
}

func chainOf(lens ...int) [][]byte {
	out := make([][]byte, len(lens))
	for i, n := range lens {
		out[i] = pat(n, byte(seedCert+i))
	}
	return out
}

func (c *checker) chainValues() [][][]byte {
	out := [][][]byte{{}}
	for _, n := range c.certLens() {
		out = append(out, chainOf(n))
	}
	out = append(out, chainOf(1, 255, 256), chainOf(65535, 1, 65536), chainOf(300, 0, 300), chainOf(1, 1, 0), chainOf(700, 800, 900),
		[][]byte{realCert, realCert})
	// totals on each side of 2^24-1: the element is valid in both, only the vector length differs
	huge := []int{1<<24 - 1 - 3, 1<<24 - 3}
	if c.th {
		huge = append(huge, 1<<24-1-4, 1<<24-1)
	}
	for _, n := range huge {
		out = append(out, chainOf(n))
	}
	if c.th {
		out = append(out, chainOf(1<<23, 1<<23-8), chainOf(1<<23, 1<<23-7), chainOf(1<<23, 1<<23-6))
	}
	return out
}

func (c *checker) precertChainValues() []ref.PrecertChainEntry {
	var out []ref.PrecertChainEntry
	for _, n := range c.certLens() {
		for _, ch := range [][][]byte{{}, chainOf(1), chainOf(255, 256, 1), chainOf(4, 0)} {
			out = append(out, ref.PrecertChainEntry{PreCertificate: pat(n, seedTBS), Chain: ch})
		}
	}
	out = append(out, ref.PrecertChainEntry{PreCertificate: realCert, Chain: [][]byte{realCert}})
	for _, n := range c.hugeLens() {
		out = append(out, ref.PrecertChainEntry{PreCertificate: pat(n, seedTBS), Chain: chainOf(2)})
	}
	out = append(out, ref.PrecertChainEntry{PreCertificate: pat(2, seedTBS), Chain: chainOf(1<<24 - 1 - 3)},
		ref.PrecertChainEntry{PreCertificate: pat(2, seedTBS), Chain: chainOf(1<<24 - 3)})
	return out
}

func (c *checker) hashLens() []int {
	l := []int{0, 1, 32, 255, 256, 257}
	if c.th {
		l = append(l, 2, 31, 33, 254, 258, 65535, 65536)
	}
	return l
}

// ----------------------------------------------------------------------------
// fixed companions for RawLogEntryFromLeaf

var (
	fixX509Leaf, fixPrecertLeaf   []byte
	fixX509Extra, fixPrecertExtra []byte
	fixChain                      = chainOf(5, 6)
	fixPre                        = pat(9, seedTBS)
	fixX509Val, fixPrecertVal     ref.MerkleTreeLeaf
)

func init() {
	fixX509Val = ref.MerkleTreeLeaf{Entry: ref.TimestampedEntry{Timestamp: 42, SignedEntry: signed(ref.X509Entry, 7), Extensions: pat(2, seedExt)}}
	fixPrecertVal = ref.MerkleTreeLeaf{Entry: ref.TimestampedEntry{Timestamp: 43, SignedEntry: signed(ref.PrecertEntry, 8), Extensions: pat(1, seedExt)}}
	must := func(b []byte, err error) []byte {
		if err != nil {
			panic(err)
		}
		return b
	}
	fixX509Leaf = must(ref.AppendMerkleTreeLeaf(nil, fixX509Val))
	fixPrecertLeaf = must(ref.AppendMerkleTreeLeaf(nil, fixPrecertVal))
	fixX509Extra = must(ref.AppendCertificateChain(nil, fixChain))
	fixPrecertExtra = must(ref.AppendPrecertChainEntry(nil, ref.PrecertChainEntry{PreCertificate: fixPre, Chain: fixChain}))
}

var indices = []int64{0, 1, 1<<63 - 1}

// rawLogEntry runs RawLogEntryFromLeaf and LogEntryFromLeaf on (leaf, extra) and
// compares with the reference: the leaf must parse completely with declared
// type codes, the extra data must parse completely as the structure selected by
// the leaf's entry type.
func (c *checker) rawLogEntry(which, st, vid string, m mut, leaf, extra []byte) {
	rl, rerr := ref.ParseMerkleTreeLeaf(leaf)
	var wantCert []byte
	var wantChain [][]byte
	if rerr == nil {
		switch rl.Entry.EntryType {
		case ref.X509Entry:
			var ch [][]byte
			ch, rerr = ref.ParseCertificateChain(extra)
			wantCert, wantChain = rl.Entry.Cert, ch
		case ref.PrecertEntry:
			var pc ref.PrecertChainEntry
			pc, rerr = ref.ParsePrecertChainEntry(extra)
			wantCert, wantChain = pc.PreCertificate, pc.Chain
		}
	}
	idx := indices[(len(leaf)+len(extra))%len(indices)]
	var rle *ct.RawLogEntry
	c.strict("RawLogEntryFromLeaf("+which+")", st, vid, m, rerr, func() error {
		var err error
		rle, err = ct.RawLogEntryFromLeaf(idx, &ct.LeafEntry{LeafInput: leaf, ExtraData: extra})
		if err == nil && rle == nil {
			return fmt.Errorf("nil entry and nil error")
		}
		return err
	}, func() string {
		got, prob := refLeaf(&rle.Leaf)
		switch {
		case prob != "":
			return "leaf ill-formed: " + prob
		case !got.Equal(rl):
			return fmt.Sprintf("Leaf = %s, want %s", showLeaf(got), showLeaf(rl))
		case string(rle.Cert.Data) != string(wantCert):
			return fmt.Sprintf("Cert = %s, want %s", showB(rle.Cert.Data), showB(wantCert))
		case !ref.EqualChains(refCerts(rle.Chain), wantChain):
			return fmt.Sprintf("Chain = %s, want %s", showBB(refCerts(rle.Chain)), showBB(wantChain))
		case rle.Index != idx:
			return fmt.Sprintf("Index = %d, want %d", rle.Index, idx)
		}
		return ""
	})
	// LogEntryFromLeaf adds X.509 parsing on top: it must refuse whatever the TLS
	// layer must refuse, and accept a well-formed entry carrying a real certificate.
	c.r.Eval(1)
	c.count("LogEntryFromLeaf(" + which + ")")
	var le *ct.LogEntry
	var lerr error
	pan, msg, stack := enum.Catch(func() { le, lerr = ct.LogEntryFromLeaf(idx, &ct.LeafEntry{LeafInput: leaf, ExtraData: extra}) })
	cd := caseDesc{API: "LogEntryFromLeaf(" + which + ")", Struct: st, Value: vid, Mut: m.id, Input: rep.Hex(m.b), Lib: fmt.Sprintf("entry=%v err=%v", le != nil, lerr), Ref: fmt.Sprint(rerr)}
	switch {
	case pan:
		c.r.Violation("panic LogEntryFromLeaf", "LogEntryFromLeaf panicked: "+msg+"\n"+stack, cd)
	case rerr != nil && (le != nil || lerr == nil):
		c.r.Violation("complete-parse-accept-mismatch LogEntryFromLeaf("+which+") lib_accepts=true ref="+ref.Class(rerr),
			fmt.Sprintf("LogEntryFromLeaf on %s from %s, mutation %s: returned an entry, reference err=%v", st, vid, m.id, rerr), cd)
	case rerr == nil && isReal(rl.Entry.SignedEntry):
		c.nontrivial("LogEntryFromLeaf", st, vid, m.id)
		c.count("LogEntryFromLeaf positive path (real certificate)")
		if le == nil {
			c.r.Violation("complete-parse-accept-mismatch LogEntryFromLeaf("+which+") lib_accepts=false ref=ok",
				fmt.Sprintf("LogEntryFromLeaf on %s from %s, mutation %s: err=%v on a well-formed entry with a real certificate", st, vid, m.id, lerr), cd)
			return
		}
		got, prob := refLeaf(&le.Leaf)
		d := ""
		switch {
		case prob != "" || !got.Equal(rl):
			d = "Leaf differs: " + prob
		case !ref.EqualChains(refCerts(le.Chain), wantChain):
			d = "Chain differs"
		case le.Index != idx:
			d = "Index differs"
		case rl.Entry.EntryType == ref.X509Entry && (le.X509Cert == nil || le.Precert != nil || string(le.X509Cert.Raw) != string(rl.Entry.Cert)):
			d = "X509Cert is not the leaf certificate"
		case rl.Entry.EntryType == ref.PrecertEntry && (le.Precert == nil || le.X509Cert != nil || string(le.Precert.Submitted.Data) != string(wantCert) ||
			le.Precert.IssuerKeyHash != rl.Entry.IssuerKeyHash || le.Precert.TBSCertificate == nil || string(le.Precert.TBSCertificate.RawTBSCertificate) != string(rl.Entry.TBS)):
			d = "Precert is not (pre_certificate, issuer_key_hash, tbs_certificate)"
		}
		if d != "" {
			cd.Lib = d
			c.r.Violation("complete-parse-value-mismatch LogEntryFromLeaf", fmt.Sprintf("LogEntryFromLeaf on %s from %s, mutation %s: %s", st, vid, m.id, d), cd)
		}
	}
}

// ----------------------------------------------------------------------------
// bindings

func (c *checker) wireJobs(jobs *[]job) {
	size := func(n int) int { return n }

	// DigitallySigned -----------------------------------------------------------
	ds := &binding[ref.DigitallySigned]{name: "DigitallySigned", st: ref.SDigitallySigned,
		enc:    func(v ref.DigitallySigned) ([]byte, error) { return ref.AppendDigitallySigned(nil, v) },
		read:   ref.ReadDigitallySigned,
		libEnc: func(v ref.DigitallySigned) ([]byte, error) { return tls.Marshal(libDS(v)) },
		libDec: func(b []byte) (ref.DigitallySigned, string, []byte, func() ([]byte, error), error) {
			var d tls.DigitallySigned
			rest, err := tls.Unmarshal(b, &d)
			v, prob := refDS(d)
			return v, prob, rest, func() ([]byte, error) { return tls.Marshal(d) }, err
		},
		eq: func(a, b ref.DigitallySigned) bool { return a.Equal(b) }, show: showDS,
		onValue: func(c *checker, vid string, v ref.DigitallySigned, encd []byte, valid bool) {
			d := ct.DigitallySigned(libDS(v))
			c.helper("DigitallySigned.Base64String", "DigitallySigned", vid, []byte(ref.B64(encd)), valid, func() ([]byte, error) {
				s, err := d.Base64String()
				return []byte(s), err
			})
			c.helper("DigitallySigned.MarshalJSON", "DigitallySigned", vid, []byte(`"`+ref.B64(encd)+`"`), valid, func() ([]byte, error) { return d.MarshalJSON() })
		},
		onInput: func(c *checker, vid string, m mut) {
			want, rerr := ref.ParseDigitallySigned(m.b)
			for _, api := range []string{"DigitallySigned.FromBase64String", "DigitallySigned.UnmarshalJSON"} {
				var d ct.DigitallySigned
				api := api
				c.strict(api, "DigitallySigned", vid, m, rerr, func() error {
					if api == "DigitallySigned.UnmarshalJSON" {
						return d.UnmarshalJSON([]byte(`"` + ref.B64(m.b) + `"`))
					}
					return d.FromBase64String(ref.B64(m.b))
				}, func() string {
					got, prob := refDS(tls.DigitallySigned(d))
					if prob != "" || !got.Equal(want) {
						return fmt.Sprintf("decoded %s %s, want %s", showDS(got), prob, showDS(want))
					}
					return ""
				})
			}
		},
	}
	addJobs(jobs, c, ds, c.dsValues(), func(v ref.DigitallySigned) int { return size(len(v.Signature)) })

	// TimestampedEntry ----------------------------------------------------------
	te := &binding[ref.TimestampedEntry]{name: "TimestampedEntry", st: ref.STimestampedEntry,
		enc:    func(v ref.TimestampedEntry) ([]byte, error) { return ref.AppendTimestampedEntry(nil, v) },
		read:   ref.ReadTimestampedEntry,
		libEnc: func(v ref.TimestampedEntry) ([]byte, error) { return tls.Marshal(*libTE(v)) },
		libDec: func(b []byte) (ref.TimestampedEntry, string, []byte, func() ([]byte, error), error) {
			var d ct.TimestampedEntry
			rest, err := tls.Unmarshal(b, &d)
			if err != nil {
				return ref.TimestampedEntry{}, "", rest, nil, err
			}
			v, prob := refTE(&d)
			return v, prob, rest, func() ([]byte, error) { return tls.Marshal(d) }, err
		},
		eq: func(a, b ref.TimestampedEntry) bool { return a.Equal(b) }, show: showTE,
	}
	addJobs(jobs, c, te, c.teValues(), func(v ref.TimestampedEntry) int { return len(v.Cert) + len(v.TBS) + len(v.Extensions) })

	// MerkleTreeLeaf ------------------------------------------------------------
	leaf := &binding[ref.MerkleTreeLeaf]{name: "MerkleTreeLeaf", st: ref.SMerkleTreeLeaf,
		enc:    func(v ref.MerkleTreeLeaf) ([]byte, error) { return ref.AppendMerkleTreeLeaf(nil, v) },
		read:   ref.ReadMerkleTreeLeaf,
		libEnc: func(v ref.MerkleTreeLeaf) ([]byte, error) { return tls.Marshal(libLeaf(v)) },
		libDec: func(b []byte) (ref.MerkleTreeLeaf, string, []byte, func() ([]byte, error), error) {
			var d ct.MerkleTreeLeaf
			rest, err := tls.Unmarshal(b, &d)
			if err != nil {
				return ref.MerkleTreeLeaf{}, "", rest, nil, err
			}
			v, prob := refLeaf(&d)
			return v, prob, rest, func() ([]byte, error) { return tls.Marshal(d) }, err
		},
		eq: func(a, b ref.MerkleTreeLeaf) bool { return a.Equal(b) }, show: showLeaf,
		onValue: func(c *checker, vid string, v ref.MerkleTreeLeaf, encd []byte, valid bool) {
			ll := libLeaf(v)
			var want []byte
			if valid {
				h := ref.LeafHash(encd)
				want = h[:]
			}
			c.helper("LeafHashForLeaf", "MerkleTreeLeaf", vid, want, valid, func() ([]byte, error) {
				h, err := ct.LeafHashForLeaf(&ll)
				return h[:], err
			})
			if v.Version == 0 && v.Entry.EntryType == ref.X509Entry && len(v.Entry.Extensions) == 0 && v.LeafType == 0 {
				c.helper("CreateX509MerkleTreeLeaf+Marshal", "MerkleTreeLeaf", vid, encd, valid, func() ([]byte, error) {
					return tls.Marshal(*ct.CreateX509MerkleTreeLeaf(ct.ASN1Cert{Data: v.Entry.Cert}, v.Entry.Timestamp))
				})
			}
			if isReal(v.Entry.SignedEntry) && v.Entry.EntryType == ref.X509Entry && len(v.Entry.Extensions) == 0 {
				for _, et := range []ct.LogEntryType{ct.X509LogEntryType, 2, 0x8000} {
					et := et
					c.helper(fmt.Sprintf("MerkleTreeLeafFromRawChain(etype=%d)+Marshal", et), "MerkleTreeLeaf", vid, encd, valid && et == ct.X509LogEntryType, func() ([]byte, error) {
						l, err := ct.MerkleTreeLeafFromRawChain([]ct.ASN1Cert{{Data: realCert}, {Data: realCert}}, et, v.Entry.Timestamp)
						if err != nil {
							return nil, err
						}
						return tls.Marshal(*l)
					})
				}
			}
			if valid && len(encd) < 1<<17 {
				// BuildLogLeaf: leaf value, extra data and identity hash of what goes to the log backend
				for _, isPre := range []bool{false, true} {
					cert := fixPre
					extra := fixX509Extra
					if isPre {
						extra = fixPrecertExtra
					}
					api := fmt.Sprintf("BuildLogLeaf(isPrecert=%v)", isPre)
					idh := sha256.Sum256(cert)
					want := append(append(append([]byte{}, encd...), extra...), idh[:]...)
					c.helper(api, "MerkleTreeLeaf", vid, want, true, func() ([]byte, error) {
						ll, err := ctutil.BuildLogLeaf("c04", libLeaf(v), 5, ct.ASN1Cert{Data: cert}, libCerts(fixChain), isPre)
						if err != nil {
							return nil, err
						}
						if ll.LeafIndex != 5 {
							return nil, fmt.Errorf("LeafIndex %d", ll.LeafIndex)
						}
						return append(append(append([]byte{}, ll.LeafValue...), ll.ExtraData...), ll.LeafIdentityHash...), nil
					})
				}
			}
		},
		onInput: func(c *checker, vid string, m mut) {
			// pick the extra data that matches what the (mutated) leaf says it is
			extra := fixX509Extra
			if rl, err := ref.ParseMerkleTreeLeaf(m.b); err == nil && rl.Entry.EntryType == ref.PrecertEntry {
				extra = fixPrecertExtra
			}
			c.rawLogEntry("leaf_input", "MerkleTreeLeaf", vid, m, m.b, extra)
		},
	}
	addJobs(jobs, c, leaf, c.leafValues(), func(v ref.MerkleTreeLeaf) int { return len(v.Entry.Cert) + len(v.Entry.TBS) + len(v.Entry.Extensions) })

	// SignedCertificateTimestamp --------------------------------------------------
	sct := &binding[ref.SCT]{name: "SignedCertificateTimestamp", st: ref.SSCT,
		enc:    func(v ref.SCT) ([]byte, error) { return ref.AppendSCT(nil, v) },
		read:   ref.ReadSCT,
		libEnc: func(v ref.SCT) ([]byte, error) { return tls.Marshal(libSCT(v)) },
		libDec: func(b []byte) (ref.SCT, string, []byte, func() ([]byte, error), error) {
			var d ct.SignedCertificateTimestamp
			rest, err := tls.Unmarshal(b, &d)
			v, prob := refSCT(&d)
			return v, prob, rest, func() ([]byte, error) { return tls.Marshal(d) }, err
		},
		eq: func(a, b ref.SCT) bool { return a.Equal(b) }, show: showSCT,
		onValue: func(c *checker, vid string, v ref.SCT, encd []byte, valid bool) {
			c.helper("MarshalSCTsIntoSCTList[0]", "SignedCertificateTimestamp", vid, encd, valid, func() ([]byte, error) {
				s := libSCT(v)
				l, err := x509util.MarshalSCTsIntoSCTList([]*ct.SignedCertificateTimestamp{&s})
				if err != nil {
					return nil, err
				}
				if len(l.SCTList) != 1 {
					return nil, fmt.Errorf("%d elements", len(l.SCTList))
				}
				return l.SCTList[0].Val, nil
			})
		},
		onInput: func(c *checker, vid string, m mut) {
			want, rerr := ref.ParseSCT(m.b)
			var got *ct.SignedCertificateTimestamp
			c.strict("x509util.ExtractSCT", "SignedCertificateTimestamp", vid, m, rerr, func() error {
				var err error
				got, err = x509util.ExtractSCT(&ctx509.SerializedSCT{Val: m.b})
				if err == nil && got == nil {
					return fmt.Errorf("nil SCT and nil error")
				}
				return err
			}, func() string {
				g, prob := refSCT(got)
				if prob != "" || !g.Equal(want) {
					return fmt.Sprintf("decoded %s %s, want %s", showSCT(g), prob, showSCT(want))
				}
				return ""
			})
		},
	}
	addJobs(jobs, c, sct, c.sctValues(), func(v ref.SCT) int { return len(v.Extensions) + len(v.Signature.Signature) })

	// CertificateTimestamp ----------------------------------------------------------
	cts := &binding[ref.CertificateTimestamp]{name: "CertificateTimestamp", st: ref.SCertificateTimestamp,
		enc:  func(v ref.CertificateTimestamp) ([]byte, error) { return ref.AppendCertificateTimestamp(nil, v) },
		read: ref.ReadCertificateTimestamp,
		libEnc: func(v ref.CertificateTimestamp) ([]byte, error) {
			x, p := libSigned(v.SignedEntry)
			return tls.Marshal(ct.CertificateTimestamp{SCTVersion: ct.Version(v.Version), SignatureType: ct.SignatureType(v.SignatureType), Timestamp: v.Timestamp,
				EntryType: ct.LogEntryType(v.EntryType), X509Entry: x, PrecertEntry: p, Extensions: v.Extensions})
		},
		libDec: func(b []byte) (ref.CertificateTimestamp, string, []byte, func() ([]byte, error), error) {
			var d ct.CertificateTimestamp
			rest, err := tls.Unmarshal(b, &d)
			if err != nil {
				return ref.CertificateTimestamp{}, "", rest, nil, err
			}
			se, prob := refSigned(d.EntryType, d.X509Entry, d.PrecertEntry, d.JSONEntry)
			if d.SCTVersion > 255 || d.SignatureType > 255 {
				prob = "version / signature type exceed one byte"
			}
			return ref.CertificateTimestamp{Version: uint8(d.SCTVersion), SignatureType: uint8(d.SignatureType), Timestamp: d.Timestamp, SignedEntry: se, Extensions: d.Extensions},
				prob, rest, func() ([]byte, error) { return tls.Marshal(d) }, err
		},
		eq: func(a, b ref.CertificateTimestamp) bool { return a.Equal(b) },
		show: func(v ref.CertificateTimestamp) string {
			return fmt.Sprintf("cts{v=%d st=%d ts=%#x %s ext=%s}", v.Version, v.SignatureType, v.Timestamp, showSigned(v.SignedEntry), showB(v.Extensions))
		},
	}
	addJobs(jobs, c, cts, c.ctsValues(), func(v ref.CertificateTimestamp) int { return len(v.Cert) + len(v.TBS) + len(v.Extensions) })

	// TreeHeadSignature -------------------------------------------------------------
	ths := &binding[ref.TreeHeadSignature]{name: "TreeHeadSignature", st: ref.STreeHeadSignature,
		enc:  func(v ref.TreeHeadSignature) ([]byte, error) { return ref.AppendTreeHeadSignature(nil, v), nil },
		read: ref.ReadTreeHeadSignature,
		libEnc: func(v ref.TreeHeadSignature) ([]byte, error) {
			return tls.Marshal(ct.TreeHeadSignature{Version: ct.Version(v.Version), SignatureType: ct.SignatureType(v.SignatureType), Timestamp: v.Timestamp,
				TreeSize: v.TreeSize, SHA256RootHash: v.RootHash})
		},
		libDec: func(b []byte) (ref.TreeHeadSignature, string, []byte, func() ([]byte, error), error) {
			var d ct.TreeHeadSignature
			rest, err := tls.Unmarshal(b, &d)
			prob := ""
			if d.Version > 255 || d.SignatureType > 255 {
				prob = "version / signature type exceed one byte"
			}
			return ref.TreeHeadSignature{Version: uint8(d.Version), SignatureType: uint8(d.SignatureType), Timestamp: d.Timestamp, TreeSize: d.TreeSize, RootHash: d.SHA256RootHash},
				prob, rest, func() ([]byte, error) { return tls.Marshal(d) }, err
		},
		eq: func(a, b ref.TreeHeadSignature) bool { return a.Equal(b) },
		show: func(v ref.TreeHeadSignature) string {
			return fmt.Sprintf("ths{v=%d st=%d ts=%#x size=%#x root=%02x..}", v.Version, v.SignatureType, v.Timestamp, v.TreeSize, v.RootHash[0])
		},
	}
	addJobs(jobs, c, ths, c.thsValues(), func(ref.TreeHeadSignature) int { return 50 })

	// SignedCertificateTimestampList ---------------------------------------------------
	list := &binding[[][]byte]{name: "SignedCertificateTimestampList", st: ref.SSCTList,
		enc:  func(v [][]byte) ([]byte, error) { return ref.AppendSCTList(nil, v) },
		read: ref.ReadSCTList,
		libEnc: func(v [][]byte) ([]byte, error) {
			l := ctx509.SignedCertificateTimestampList{SCTList: []ctx509.SerializedSCT{}}
			for _, e := range v {
				l.SCTList = append(l.SCTList, ctx509.SerializedSCT{Val: e})
			}
			return tls.Marshal(l)
		},
		libDec: func(b []byte) ([][]byte, string, []byte, func() ([]byte, error), error) {
			var d ctx509.SignedCertificateTimestampList
			rest, err := tls.Unmarshal(b, &d)
			out := make([][]byte, len(d.SCTList))
			for i, e := range d.SCTList {
				out[i] = e.Val
			}
			return out, "", rest, func() ([]byte, error) { return tls.Marshal(d) }, err
		},
		eq: ref.EqualChains, show: func(v [][]byte) string { return "sct_list" + showBB(v) },
		onValue: func(c *checker, vid string, v [][]byte, encd []byte, valid bool) {
			// from SCT structs all the way to the list, when every element is an SCT
			var scts []*ct.SignedCertificateTimestamp
			for _, e := range v {
				s, err := ref.ParseSCT(e)
				if err != nil {
					return
				}
				ls := libSCT(s)
				scts = append(scts, &ls)
			}
			c.helper("MarshalSCTsIntoSCTList+Marshal", "SignedCertificateTimestampList", vid, encd, valid, func() ([]byte, error) {
				l, err := x509util.MarshalSCTsIntoSCTList(scts)
				if err != nil {
					return nil, err
				}
				return tls.Marshal(*l)
			})
		},
		onInput: c.sctListInput,
	}
	addJobs(jobs, c, list, c.sctListValues(), func(v [][]byte) int {
		n := 0
		for _, e := range v {
			n += len(e)
		}
		return n * 8 // each input is also wrapped in a certificate
	})

	// CertificateChain ----------------------------------------------------------------
	chain := &binding[[][]byte]{name: "CertificateChain", st: ref.SCertificateChain,
		enc:    func(v [][]byte) ([]byte, error) { return ref.AppendCertificateChain(nil, v) },
		read:   ref.ReadCertificateChain,
		libEnc: func(v [][]byte) ([]byte, error) { return tls.Marshal(ct.CertificateChain{Entries: libCerts(v)}) },
		libDec: func(b []byte) ([][]byte, string, []byte, func() ([]byte, error), error) {
			var d ct.CertificateChain
			rest, err := tls.Unmarshal(b, &d)
			return refCerts(d.Entries), "", rest, func() ([]byte, error) { return tls.Marshal(d) }, err
		},
		eq: ref.EqualChains, show: func(v [][]byte) string { return "chain" + showBB(v) },
		onValue: func(c *checker, vid string, v [][]byte, encd []byte, valid bool) {
			c.helper("ExtraDataForChain(isPrecert=false)", "CertificateChain", vid, encd, valid, func() ([]byte, error) {
				return ctutil.ExtraDataForChain(ct.ASN1Cert{Data: fixPre}, libCerts(v), false)
			})
		},
		onInput: c.extraDataInput("CertificateChain"),
	}
	addJobs(jobs, c, chain, c.chainValues(), func(v [][]byte) int {
		n := 0
		for _, e := range v {
			n += len(e)
		}
		return n
	})

	// PrecertChainEntry ---------------------------------------------------------------
	pce := &binding[ref.PrecertChainEntry]{name: "PrecertChainEntry", st: ref.SPrecertChainEntry,
		enc:  func(v ref.PrecertChainEntry) ([]byte, error) { return ref.AppendPrecertChainEntry(nil, v) },
		read: ref.ReadPrecertChainEntry,
		libEnc: func(v ref.PrecertChainEntry) ([]byte, error) {
			return tls.Marshal(ct.PrecertChainEntry{PreCertificate: ct.ASN1Cert{Data: v.PreCertificate}, CertificateChain: libCerts(v.Chain)})
		},
		libDec: func(b []byte) (ref.PrecertChainEntry, string, []byte, func() ([]byte, error), error) {
			var d ct.PrecertChainEntry
			rest, err := tls.Unmarshal(b, &d)
			return ref.PrecertChainEntry{PreCertificate: d.PreCertificate.Data, Chain: refCerts(d.CertificateChain)}, "", rest, func() ([]byte, error) { return tls.Marshal(d) }, err
		},
		eq: func(a, b ref.PrecertChainEntry) bool { return a.Equal(b) },
		show: func(v ref.PrecertChainEntry) string {
			return "pce{pre=" + showB(v.PreCertificate) + " chain=" + showBB(v.Chain) + "}"
		},
		onValue: func(c *checker, vid string, v ref.PrecertChainEntry, encd []byte, valid bool) {
			c.helper("ExtraDataForChain(isPrecert=true)", "PrecertChainEntry", vid, encd, valid, func() ([]byte, error) {
				return ctutil.ExtraDataForChain(ct.ASN1Cert{Data: v.PreCertificate}, libCerts(v.Chain), true)
			})
		},
		onInput: c.extraDataInput("PrecertChainEntry"),
	}
	addJobs(jobs, c, pce, c.precertChainValues(), func(v ref.PrecertChainEntry) int {
		n := len(v.PreCertificate)
		for _, e := range v.Chain {
			n += len(e)
		}
		return n
	})

	// hash storage variants ---------------------------------------------------------------
	cch := &binding[[]byte]{name: "CertificateChainHash", st: ref.SCertificateChainHash,
		enc:    func(v []byte) ([]byte, error) { return ref.AppendCertificateChainHash(nil, v) },
		read:   ref.ReadCertificateChainHash,
		libEnc: func(v []byte) ([]byte, error) { return tls.Marshal(ct.CertificateChainHash{IssuanceChainHash: v}) },
		libDec: func(b []byte) ([]byte, string, []byte, func() ([]byte, error), error) {
			var d ct.CertificateChainHash
			rest, err := tls.Unmarshal(b, &d)
			return d.IssuanceChainHash, "", rest, func() ([]byte, error) { return tls.Marshal(d) }, err
		},
		eq: func(a, b []byte) bool { return string(a) == string(b) }, show: func(v []byte) string { return "cch{" + showB(v) + "}" },
		onValue: func(c *checker, vid string, v []byte, encd []byte, valid bool) {
			if v == nil {
				return // a nil hash selects the chain layout in the helper
			}
			c.helper("ExtraDataForChainHash(isPrecert=false)", "CertificateChainHash", vid, encd, valid, func() ([]byte, error) {
				return ctutil.ExtraDataForChainHash(ct.ASN1Cert{Data: fixPre}, v, false)
			})
		},
	}
	var hashes [][]byte
	for _, n := range c.hashLens() {
		hashes = append(hashes, pat(n, seedRoot))
	}
	addJobs(jobs, c, cch, hashes, func(v []byte) int { return len(v) })

	pch := &binding[ref.PrecertChainEntryHash]{name: "PrecertChainEntryHash", st: ref.SPrecertChainEntryHash,
		enc:  func(v ref.PrecertChainEntryHash) ([]byte, error) { return ref.AppendPrecertChainEntryHash(nil, v) },
		read: ref.ReadPrecertChainEntryHash,
		libEnc: func(v ref.PrecertChainEntryHash) ([]byte, error) {
			return tls.Marshal(ct.PrecertChainEntryHash{PreCertificate: ct.ASN1Cert{Data: v.PreCertificate}, IssuanceChainHash: v.IssuanceChainHash})
		},
		libDec: func(b []byte) (ref.PrecertChainEntryHash, string, []byte, func() ([]byte, error), error) {
			var d ct.PrecertChainEntryHash
			rest, err := tls.Unmarshal(b, &d)
			return ref.PrecertChainEntryHash{PreCertificate: d.PreCertificate.Data, IssuanceChainHash: d.IssuanceChainHash}, "", rest, func() ([]byte, error) { return tls.Marshal(d) }, err
		},
		eq: func(a, b ref.PrecertChainEntryHash) bool { return a.Equal(b) },
		show: func(v ref.PrecertChainEntryHash) string {
			return "pch{pre=" + showB(v.PreCertificate) + " hash=" + showB(v.IssuanceChainHash) + "}"
		},
		onValue: func(c *checker, vid string, v ref.PrecertChainEntryHash, encd []byte, valid bool) {
			c.helper("ExtraDataForChainHash(isPrecert=true)", "PrecertChainEntryHash", vid, encd, valid, func() ([]byte, error) {
				return ctutil.ExtraDataForChainHash(ct.ASN1Cert{Data: v.PreCertificate}, v.IssuanceChainHash, true)
			})
		},
	}
	var pchs []ref.PrecertChainEntryHash
	for _, n := range []int{0, 1, 256, 65536} {
		for _, h := range hashes {
			pchs = append(pchs, ref.PrecertChainEntryHash{PreCertificate: pat(n, seedTBS), IssuanceChainHash: h})
		}
	}
	addJobs(jobs, c, pch, pchs, func(v ref.PrecertChainEntryHash) int { return len(v.PreCertificate) })

	*jobs = append(*jobs, job{cost: 1, name: "ill-formed Go values", run: c.illFormed})
}

// extraDataInput feeds one byte string as extra_data under a fixed valid leaf
// of each entry type: under the x509 leaf it must be a complete CertificateChain,
// under the precert leaf a complete PrecertChainEntry.
func (c *checker) extraDataInput(st string) func(c *checker, vid string, m mut) {
	return func(c *checker, vid string, m mut) {
		c.rawLogEntry("extra_data under x509 leaf", st, vid, m, fixX509Leaf, m.b)
		c.rawLogEntry("extra_data under precert leaf", st, vid, m, fixPrecertLeaf, m.b)
	}
}

// sctListInput embeds the byte string as the SCT-list extension of a certificate
// and parses the certificate with the library's x509 package, then converts the
// elements with ParseSCTsFromSCTList.
func (c *checker) sctListInput(_ *checker, vid string, m mut) {
	const st = "SignedCertificateTimestampList"
	want, rerr := ref.ParseSCTList(m.b)
	der := certWithSCTList(m.b)
	var cert *ctx509.Certificate
	c.strict("x509.ParseCertificate(SCT list extension)", st, vid, m, rerr, func() error {
		var err error
		cert, err = ctx509.ParseCertificate(der)
		if cert == nil {
			return fmt.Errorf("fatal (harness certificate not parsed): %v", err)
		}
		return err
	}, func() string {
		got := make([][]byte, len(cert.SCTList.SCTList))
		for i, e := range cert.SCTList.SCTList {
			got[i] = e.Val
		}
		if !ref.EqualChains(got, want) {
			return fmt.Sprintf("SCTList = %s, want %s", showBB(got), showBB(want))
		}
		if string(cert.RawSCT) != string(m.b) {
			return "RawSCT differs from the extension contents"
		}
		return ""
	})
	// every element must in turn be a complete SCT
	var wantSCTs []ref.SCT
	var serr error
	l := ctx509.SignedCertificateTimestampList{}
	for _, e := range want {
		s, err := ref.ParseSCT(e)
		if err != nil && serr == nil {
			serr = err
		}
		wantSCTs = append(wantSCTs, s)
		l.SCTList = append(l.SCTList, ctx509.SerializedSCT{Val: e})
	}
	var got []*ct.SignedCertificateTimestamp
	cmp := func() string {
		if len(got) != len(wantSCTs) {
			return fmt.Sprintf("%d SCTs, want %d", len(got), len(wantSCTs))
		}
		for i := range got {
			g, prob := refSCT(got[i])
			if prob != "" || !g.Equal(wantSCTs[i]) {
				return fmt.Sprintf("SCT %d = %s %s, want %s", i, showSCT(g), prob, showSCT(wantSCTs[i]))
			}
		}
		return ""
	}
	// the one-call route from certificate bytes (DER and PEM) to SCTs: an error unless the extension
	// holds exactly one complete list of complete SCTs
	both := rerr
	if both == nil {
		both = serr
	}
	for _, enc := range []string{"DER", "PEM"} {
		in := der
		if enc == "PEM" {
			in = pem.EncodeToMemory(&pem.Block{Type: "CERTIFICATE", Bytes: der})
		}
		c.strict("x509util.ParseSCTsFromCertificate("+enc+")", st, vid, m, both, func() error {
			var err error
			got, err = x509util.ParseSCTsFromCertificate(in)
			return err
		}, cmp)
	}
	got = nil
	if rerr != nil {
		return
	}
	c.strict("x509util.ParseSCTsFromSCTList", st, vid, m, serr, func() error {
		var err error
		got, err = x509util.ParseSCTsFromSCTList(&l)
		return err
	}, func() string {
		if len(got) != len(wantSCTs) {
			return fmt.Sprintf("%d SCTs, want %d", len(got), len(wantSCTs))
		}
		for i := range got {
			g, prob := refSCT(got[i])
			if prob != "" || !g.Equal(wantSCTs[i]) {
				return fmt.Sprintf("SCT %d = %s %s, want %s", i, showSCT(g), prob, showSCT(wantSCTs[i]))
			}
		}
		return ""
	})
}

// illFormed: Go values that correspond to no RFC structure must be refused by the
// encoder and by LeafHashForLeaf with an error, never a panic and never bytes.
func (c *checker) illFormed() {
	x := &ct.ASN1Cert{Data: pat(3, seedCert)}
	p := &ct.PreCert{IssuerKeyHash: pat32(seedIKH), TBSCertificate: pat(3, seedTBS)}
	okTE := &ct.TimestampedEntry{Timestamp: 1, EntryType: 0, X509Entry: x}
	cases := []struct {
		name string
		v    any
	}{
		{"leaf: selected arm nil", ct.MerkleTreeLeaf{}},
		{"leaf: leaf_type 1 with TimestampedEntry set", ct.MerkleTreeLeaf{LeafType: 1, TimestampedEntry: okTE}},
		{"leaf: version 256", ct.MerkleTreeLeaf{Version: 256, TimestampedEntry: okTE}},
		{"leaf: leaf_type 256", ct.MerkleTreeLeaf{LeafType: 256, TimestampedEntry: okTE}},
		{"entry: x509 arm nil", ct.TimestampedEntry{EntryType: 0}},
		{"entry: both arms set", ct.TimestampedEntry{EntryType: 0, X509Entry: x, PrecertEntry: p}},
		{"entry: precert type with x509 arm", ct.TimestampedEntry{EntryType: 1, X509Entry: x}},
		{"entry: entry_type 65536", ct.TimestampedEntry{EntryType: 65536, X509Entry: x}},
		{"entry: entry_type 2 with x509 arm", ct.TimestampedEntry{EntryType: 2, X509Entry: x}},
		{"sct input: entry_type 65536", ct.CertificateTimestamp{EntryType: 65536, X509Entry: x}},
		{"sct input: signature_type 256", ct.CertificateTimestamp{SignatureType: 256, X509Entry: x}},
		{"digitally-signed: hash 256", tls.DigitallySigned{Algorithm: tls.SignatureAndHashAlgorithm{Hash: 256}}},
		{"digitally-signed: signature 256", tls.DigitallySigned{Algorithm: tls.SignatureAndHashAlgorithm{Signature: 256}}},
		{"sct: version 256", ct.SignedCertificateTimestamp{SCTVersion: 256}},
		{"tree head: version 256", ct.TreeHeadSignature{Version: 256}},
	}
	for _, cs := range cases {
		cs := cs
		c.helper("tls.Marshal(ill-formed value)", "ill-formed", cs.name, nil, false, func() ([]byte, error) { return tls.Marshal(cs.v) })
		if l, ok := cs.v.(ct.MerkleTreeLeaf); ok {
			c.helper("LeafHashForLeaf(ill-formed value)", "ill-formed", cs.name, nil, false, func() ([]byte, error) {
				h, err := ct.LeafHashForLeaf(&l)
				return h[:], err
			})
		}
	}
}
