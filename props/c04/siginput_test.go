package c04

// The two signature inputs (RFC 6962 s3.2 and s3.5) through
// SerializeSCTSignatureInput / SerializeSTHSignatureInput and through the
// verifiers that wrap them.

import (
	"crypto/ecdsa"
	"crypto/rand"
	"crypto/sha256"
	"fmt"

	"verif/engine/enum"
	ref "verif/ref/ct6962"

	ct "github.com/google/certificate-transparency-go"
	"github.com/google/certificate-transparency-go/tls"
)

func signWithTestKey(msg []byte) ct.DigitallySigned {
	h := sha256.Sum256(msg)
	sig, err := ecdsa.SignASN1(rand.Reader, testKey, h[:])
	if err != nil {
		panic(err)
	}
	return ct.DigitallySigned{Algorithm: tls.SignatureAndHashAlgorithm{Hash: tls.SHA256, Signature: tls.ECDSA}, Signature: sig}
}

// verify checks a verifier call: it must accept exactly when wantOK.
func (c *checker) verify(api, vid string, wantOK bool, why string, call func() error) {
	c.r.Eval(1)
	c.count(api)
	var err error
	pan, msg, stack := enum.Catch(func() { err = call() })
	cd := caseDesc{API: api, Value: vid, Lib: fmt.Sprint(err), Ref: fmt.Sprintf("accept=%v (%s)", wantOK, why)}
	if pan {
		c.r.Violation("panic "+api, api+" panicked: "+msg+"\n"+stack, cd)
		return
	}
	c.nontrivial(api, why, vid, "")
	if (err == nil) != wantOK {
		c.r.Violation(fmt.Sprintf("verify-mismatch %s lib_accepts=%v case=%s", api, err == nil, why),
			fmt.Sprintf("%s on %s: err=%v, expected accept=%v: %s", api, vid, err, wantOK, why), cd)
	}
}

func (c *checker) sigInputJobs(jobs *[]job) {
	verifier, err := ct.NewSignatureVerifier(&testKey.PublicKey)
	if err != nil {
		panic("harness: " + err.Error())
	}
	versions := []uint8{0, 1, 2, 255}

	// ---- tree head ----------------------------------------------------------
	n := 0
	for _, v := range versions {
		for _, ts := range c.timestamps() {
			for _, size := range c.timestamps() {
				for _, seed := range []byte{seedRoot, 0} {
					v, ts, size, root := v, ts, size, pat32(seed)
					n++
					doVerify := n%7 == 0 || v != 0 && n%3 == 0
					*jobs = append(*jobs, job{cost: 60, name: "sth-input", run: func() {
						vid := fmt.Sprintf("sth{v=%d ts=%#x size=%#x root=%02x..}", v, ts, size, root[0])
						want, rerr := ref.AppendSTHSignatureInput(nil, v, ts, size, root)
						// the other fields of the STH must not leak into the input
						sth := ct.SignedTreeHead{Version: ct.Version(v), TreeSize: size, Timestamp: ts, SHA256RootHash: root,
							LogID: pat32(seedID), TreeHeadSignature: ct.DigitallySigned(libDS(ref.DigitallySigned{Hash: 4, Sig: 3, Signature: pat(8, seedSig)}))}
						c.helper("SerializeSTHSignatureInput", "TreeHeadSignature", vid, want, rerr == nil, func() ([]byte, error) { return ct.SerializeSTHSignatureInput(sth) })
						if !doVerify {
							return
						}
						// the verifier must accept a signature over exactly the reference input
						msg := want
						if rerr != nil {
							// what a v1-shaped input with that version byte would look like: must still be refused
							msg = ref.AppendTreeHeadSignature(nil, ref.TreeHeadSignature{Version: v, SignatureType: ref.TreeHashSig, Timestamp: ts, TreeSize: size, RootHash: root})
						}
						sth.TreeHeadSignature = signWithTestKey(msg)
						c.verify("VerifySTHSignature", vid, rerr == nil, "good-signature version="+ref.Class(rerr), func() error { return verifier.VerifySTHSignature(sth) })
						if rerr == nil {
							other, _ := ref.AppendSTHSignatureInput(nil, v, size+1, ts, root) // fields swapped / shifted
							sth.TreeHeadSignature = signWithTestKey(other)
							c.verify("VerifySTHSignature", vid, false, "signature-over-swapped-timestamp-and-tree-size", func() error { return verifier.VerifySTHSignature(sth) })
						}
					}})
				}
			}
		}
	}
	c.r.Add("values_STHSignatureInput", int64(n))

	// ---- certificate timestamp ---------------------------------------------------
	type entryCase struct {
		se   ref.SignedEntry
		json bool
	}
	var entries []entryCase
	for _, et := range []uint16{ref.X509Entry, ref.PrecertEntry} {
		for _, cl := range c.certLens() {
			entries = append(entries, entryCase{se: signed(et, cl)})
		}
		entries = append(entries, entryCase{se: signed(et, c.hugeLens()[0])}, entryCase{se: signed(et, c.hugeLens()[1])})
	}
	for _, et := range []uint16{2, 0x00ff, 0x0100, 0xffff} {
		entries = append(entries, entryCase{se: ref.SignedEntry{EntryType: et}})
	}
	entries = append(entries, entryCase{se: ref.SignedEntry{EntryType: 0x8000}, json: true})
	m := 0
	for _, v := range versions {
		for _, ts := range c.timestamps() {
			for _, el := range c.extLens() {
				for _, ec := range entries {
					big := len(ec.se.Cert)+len(ec.se.TBS) > 1<<20
					if big && (v != 0 || ts != 1<<32 || el > 1) {
						continue
					}
					v, ts, el, ec := v, ts, el, ec
					m++
					doVerify := !big && (m%11 == 0 || v != 0 && m%5 == 0)
					*jobs = append(*jobs, job{cost: len(ec.se.Cert) + len(ec.se.TBS) + el, name: "sct-input", run: func() {
						ext := pat(el, seedExt)
						vid := fmt.Sprintf("sct{v=%d ts=%#x ext=%s} entry{%s}", v, ts, showB(ext), showSigned(ec.se))
						want, rerr := ref.AppendSCTSignatureInput(nil, v, ts, ec.se, ext)
						// the leaf carries a different timestamp and different extensions: the signed
						// values are the SCT's
						leaf := libLeaf(ref.MerkleTreeLeaf{Entry: ref.TimestampedEntry{Timestamp: ^ts, SignedEntry: ec.se, Extensions: pat(5, seedRoot)}})
						if ec.json {
							leaf.TimestampedEntry.JSONEntry = &ct.JSONDataEntry{Data: []byte(`{"a":1}`)}
						}
						entry := ct.LogEntry{Index: 3, Leaf: leaf}
						sct := ct.SignedCertificateTimestamp{SCTVersion: ct.Version(v), LogID: ct.LogID{KeyID: pat32(seedID)}, Timestamp: ts, Extensions: ext,
							Signature: ct.DigitallySigned(libDS(ref.DigitallySigned{Hash: 4, Sig: 3, Signature: pat(8, seedSig)}))}
						c.helper("SerializeSCTSignatureInput", "CertificateTimestamp", vid, want, rerr == nil, func() ([]byte, error) { return ct.SerializeSCTSignatureInput(sct, entry) })
						if !doVerify {
							return
						}
						msg := want
						if rerr != nil {
							var e2 error
							msg, e2 = ref.AppendCertificateTimestamp(nil, ref.CertificateTimestamp{Version: v, Timestamp: ts, SignedEntry: ec.se, Extensions: ext})
							if e2 != nil {
								return
							}
						}
						sct.Signature = signWithTestKey(msg)
						c.verify("VerifySCTSignature", vid, rerr == nil, "good-signature input="+ref.Class(rerr), func() error { return verifier.VerifySCTSignature(sct, entry) })
						if rerr == nil {
							other, _ := ref.AppendSCTSignatureInput(nil, v, ^ts, ec.se, ext) // the leaf's timestamp instead of the SCT's
							sct.Signature = signWithTestKey(other)
							c.verify("VerifySCTSignature", vid, false, "signature-over-leaf-timestamp-instead-of-sct-timestamp", func() error { return verifier.VerifySCTSignature(sct, entry) })
						}
					}})
				}
			}
		}
	}
	c.r.Add("values_SCTSignatureInput", int64(m))
}
