package c04

// The JSON API messages of RFC 6962 s4: field names, base64 fields, lossless
// conversion to and from the internal structures.

import (
	"bytes"
	"encoding/json"
	"fmt"
	"reflect"
	"strconv"
	"strings"

	"verif/engine/enum"
	ref "verif/ref/ct6962"

	ct "github.com/google/certificate-transparency-go"
	"github.com/google/certificate-transparency-go/tls"
)

func num(x uint64) json.Number { return json.Number(strconv.FormatUint(x, 10)) }
func inum(x int64) json.Number { return json.Number(strconv.FormatInt(x, 10)) }
func b64s(bs [][]byte) []any {
	out := make([]any, len(bs))
	for i, b := range bs {
		out[i] = ref.B64(b)
	}
	return out
}

func parseObj(b []byte) (map[string]any, error) {
	d := json.NewDecoder(bytes.NewReader(b))
	d.UseNumber()
	var m map[string]any
	if err := d.Decode(&m); err != nil {
		return nil, err
	}
	return m, nil
}

// toJSON: the library's struct marshalled by encoding/json must be exactly the
// object want (RFC field names, base64 strings, decimal numbers, nothing else).
func (c *checker) toJSON(msg, vid string, v any, want map[string]any) {
	c.r.Eval(1)
	c.count("json.Marshal(" + msg + ")")
	var out []byte
	var err error
	pan, pmsg, stack := enum.Catch(func() { out, err = json.Marshal(v) })
	cd := caseDesc{API: "json.Marshal(" + msg + ")", Value: vid, Lib: fmt.Sprintf("%s err=%v", clip(string(out)), err), Ref: clip(fmt.Sprint(want))}
	if pan {
		c.r.Violation("panic json.Marshal("+msg+")", pmsg+"\n"+stack, cd)
		return
	}
	c.nontrivial("json.Marshal", msg, vid, "")
	if err != nil {
		c.r.Violation("json-marshal-error "+msg, fmt.Sprintf("%s %s: %v", msg, vid, err), cd)
		return
	}
	got, perr := parseObj(out)
	if perr != nil || !reflect.DeepEqual(got, want) {
		c.r.Violation("json-marshal-mismatch "+msg, fmt.Sprintf("%s %s: library wrote %s (parse err=%v), RFC form is %s", msg, vid, clip(string(out)), perr, clip(fmt.Sprint(want))), cd)
	}
}

// fromJSON: the RFC-form text must populate the library's struct with want.
func (c *checker) fromJSON(msg, vid, text string, dst any, want any) bool {
	c.r.Eval(1)
	c.count("json.Unmarshal(" + msg + ")")
	var err error
	pan, pmsg, stack := enum.Catch(func() { err = json.Unmarshal([]byte(text), dst) })
	cd := caseDesc{API: "json.Unmarshal(" + msg + ")", Value: vid, Input: clip(text), Lib: fmt.Sprintf("%+v err=%v", clip(fmt.Sprintf("%+v", reflect.ValueOf(dst).Elem().Interface())), err), Ref: clip(fmt.Sprintf("%+v", want))}
	if pan {
		c.r.Violation("panic json.Unmarshal("+msg+")", pmsg+"\n"+stack, cd)
		return false
	}
	c.nontrivial("json.Unmarshal", msg, vid, "")
	if err != nil {
		c.r.Violation("json-unmarshal-error "+msg, fmt.Sprintf("%s %s: RFC-form body refused: %v", msg, vid, err), cd)
		return false
	}
	if !reflect.DeepEqual(reflect.ValueOf(dst).Elem().Interface(), want) {
		c.r.Violation("json-unmarshal-mismatch "+msg, fmt.Sprintf("%s %s: RFC-form body %s decoded to %s, want %s", msg, vid, clip(text), cd.Lib, cd.Ref), cd)
		return false
	}
	return true
}

func clip(s string) string {
	if len(s) > 300 {
		return s[:300] + fmt.Sprintf("…(%d chars)", len(s))
	}
	return s
}

// badBase64 derives texts that are not RFC 4648 s4 base64 from a valid one.
type badText struct{ why, text string }

func badBase64(good string) []badText {
	var out []badText
	if strings.HasSuffix(good, "=") {
		out = append(out, badText{"padding removed", strings.TrimRight(good, "=")})
	}
	if len(good) >= 4 {
		out = append(out, badText{"illegal character", good[:1] + "!" + good[2:]},
			badText{"one character short", good[:len(good)-1]}, badText{"extra padding", good + "="})
	}
	if strings.ContainsAny(good, "+/") {
		out = append(out, badText{"url-safe alphabet", strings.NewReplacer("+", "-", "/", "_").Replace(good)})
	}
	return out
}

type sigVariant struct {
	name string
	b    []byte
}

func sigVariants() []sigVariant {
	mk := func(d ref.DigitallySigned) []byte {
		b, err := ref.AppendDigitallySigned(nil, d)
		if err != nil {
			panic(err)
		}
		return b
	}
	good := mk(ref.DigitallySigned{Hash: 4, Sig: 3, Signature: pat(71, seedSig)})
	return []sigVariant{
		{"ecdsa-71", good},
		{"rsa-256", mk(ref.DigitallySigned{Hash: 4, Sig: 1, Signature: pat(256, seedSig)})},
		{"empty-signature", mk(ref.DigitallySigned{Hash: 255, Sig: 255})},
		{"max-signature", mk(ref.DigitallySigned{Hash: 6, Sig: 2, Signature: pat(65535, seedSig)})},
		{"truncated", good[:len(good)-1]},
		{"trailing-byte", append(append([]byte{}, good...), 0)},
		{"length+1", func() []byte { b := append([]byte{}, good...); b[3]++; return b }()},
		{"header-only", good[:3]},
		{"no-bytes", []byte{}},
	}
}

func (c *checker) jsonJobs(jobs *[]job) {
	add := func(name string, cost int, f func()) { *jobs = append(*jobs, job{cost: cost, name: name, run: f}) }
	sigs := sigVariants()

	// ---- get-sth (s4.3) and ToSignedTreeHead ------------------------------------
	n := 0
	for _, size := range c.timestamps() {
		for _, ts := range c.timestamps() {
			for _, rl := range []int{0, 31, 32, 33} {
				for _, sv := range sigs {
					size, ts, rl, sv := size, ts, rl, sv
					n++
					add("get-sth", len(sv.b), func() {
						root := pat(rl, seedRoot)
						vid := fmt.Sprintf("get-sth{size=%#x ts=%#x root=%dB sig=%s}", size, ts, rl, sv.name)
						lib := ct.GetSTHResponse{TreeSize: size, Timestamp: ts, SHA256RootHash: root, TreeHeadSignature: sv.b}
						c.toJSON("GetSTHResponse", vid, lib, map[string]any{"tree_size": num(size), "timestamp": num(ts), "sha256_root_hash": ref.B64(root), "tree_head_signature": ref.B64(sv.b)})
						var back ct.GetSTHResponse
						if !c.fromJSON("GetSTHResponse", vid, ref.JSONGetSTH(size, ts, root, sv.b), &back, lib) {
							return
						}
						ds, rerr := ref.ParseDigitallySigned(sv.b)
						if rerr == nil && rl != 32 {
							rerr = fmt.Errorf("%w: sha256_root_hash has %d bytes", ref.ErrLength, rl)
						}
						var sth *ct.SignedTreeHead
						c.strict("GetSTHResponse.ToSignedTreeHead", "get-sth", vid, mut{id: sv.name, b: sv.b}, rerr, func() error {
							var err error
							sth, err = back.ToSignedTreeHead()
							if err == nil && sth == nil {
								return fmt.Errorf("nil and nil")
							}
							return err
						}, func() string {
							got, prob := refDS(tls.DigitallySigned(sth.TreeHeadSignature))
							switch {
							case sth.Version != ct.V1 || sth.TreeSize != size || sth.Timestamp != ts || string(sth.SHA256RootHash[:]) != string(root):
								return fmt.Sprintf("STH = %+v", *sth)
							case prob != "" || !got.Equal(ds):
								return fmt.Sprintf("signature = %s %s, want %s", showDS(got), prob, showDS(ds))
							}
							// and what will be verified is the RFC's input
							want, _ := ref.AppendSTHSignatureInput(nil, ref.V1, ts, size, sth.SHA256RootHash)
							in, err := ct.SerializeSTHSignatureInput(*sth)
							if err != nil || string(in) != string(want) {
								return fmt.Sprintf("signature input %x err=%v, want %x", in, err, want)
							}
							return ""
						})
						// SignedTreeHead's own JSON form (gossip): its fields ride on the same base64 methods
						if rerr == nil {
							full := *sth
							full.LogID = pat32(seedID)
							c.toJSON("SignedTreeHead", vid, full, map[string]any{"sth_version": num(0), "tree_size": num(size), "timestamp": num(ts),
								"sha256_root_hash": ref.B64(root), "tree_head_signature": ref.B64(sv.b), "log_id": ref.B64(full.LogID[:])})
							var fb ct.SignedTreeHead
							text := `{"sth_version":0,"tree_size":` + string(num(size)) + `,"timestamp":` + string(num(ts)) + `,"sha256_root_hash":"` + ref.B64(root) +
								`","tree_head_signature":"` + ref.B64(sv.b) + `","log_id":"` + ref.B64(full.LogID[:]) + `"}`
							// the same JSON value may be spelled with string escapes (RFC 8259 s7): "/" as "\/" (PHP's default)
							// or "\u002f", "+" as "\u002b"
							texts := []string{text}
							if strings.ContainsAny(text, "/+") {
								texts = append(texts, strings.ReplaceAll(text, "/", `\/`), strings.ReplaceAll(strings.ReplaceAll(text, "/", `\u002f`), "+", `\u002b`))
								c.r.Add("json_texts_with_escaped_base64", 2)
							}
							for _, text := range texts {
								fb = ct.SignedTreeHead{}
								c.r.Eval(1)
								if err := json.Unmarshal([]byte(text), &fb); err != nil || fb.TreeSize != size || fb.Timestamp != ts || fb.SHA256RootHash != full.SHA256RootHash ||
									fb.LogID != full.LogID || fb.Version != 0 || !ds.Equal(first(refDS(tls.DigitallySigned(fb.TreeHeadSignature)))) {
									c.r.Violation("json-unmarshal-mismatch SignedTreeHead", fmt.Sprintf("SignedTreeHead %s: %s decoded to %+v err=%v", vid, clip(text), fb, err),
										caseDesc{API: "json.Unmarshal(SignedTreeHead)", Value: vid, Input: clip(text), Lib: fmt.Sprintf("%+v err=%v", fb, err), Ref: "lossless"})
								}
							}
						}
					})
				}
			}
		}
	}
	c.r.Add("values_GetSTHResponse", int64(n))

	// ---- add-chain response (s4.1) and ToSignedCertificateTimestamp ---------------------
	n = 0
	els := []int{0, 1, 255, 65535, 65536}
	for _, v := range []uint8{0, 1, 255} {
		for _, ts := range c.timestamps() {
			for _, il := range []int{0, 31, 32, 33} {
				for _, el := range els {
					for _, sv := range sigs {
						if v != 0 && (el > 1 || ts != 1) {
							continue
						}
						v, ts, il, el, sv := v, ts, il, el, sv
						n++
						add("add-chain", el+len(sv.b), func() {
							id, ext := pat(il, seedID), pat(el, seedExt)
							vid := fmt.Sprintf("add-chain{v=%d id=%dB ts=%#x ext=%dB sig=%s}", v, il, ts, el, sv.name)
							lib := ct.AddChainResponse{SCTVersion: ct.Version(v), ID: id, Timestamp: ts, Extensions: ref.B64(ext), Signature: sv.b}
							c.toJSON("AddChainResponse", vid, lib, map[string]any{"sct_version": num(uint64(v)), "id": ref.B64(id), "timestamp": num(ts),
								"extensions": ref.B64(ext), "signature": ref.B64(sv.b)})
							var back ct.AddChainResponse
							if !c.fromJSON("AddChainResponse", vid, ref.JSONAddChainResponse(v, id, ts, ext, sv.b), &back, lib) {
								return
							}
							ds, rerr := ref.ParseDigitallySigned(sv.b)
							if rerr == nil && il != 32 {
								rerr = fmt.Errorf("%w: id has %d bytes", ref.ErrLength, il)
							}
							if el > ref.MaxExtensions {
								// The JSON field has no length prefix; what the conversion must do with extensions that no SCT
								// can carry is not fixed by the property. Whatever it returns must not be encodable.
								c.r.Add("json_extensions_over_65535_cases", 1)
								sct, err := back.ToSignedCertificateTimestamp()
								if err == nil {
									c.r.Add("json_extensions_over_65535_accepted_by_conversion", 1)
									c.helper("tls.Marshal(SCT from over-long JSON extensions)", "add-chain", vid, nil, false, func() ([]byte, error) { return tls.Marshal(*sct) })
								}
								return
							}
							var sct *ct.SignedCertificateTimestamp
							var id32 [32]byte
							copy(id32[:], id)
							want := ref.SCT{Version: v, LogID: id32, Timestamp: ts, Extensions: ext, Signature: ds}
							c.strict("AddChainResponse.ToSignedCertificateTimestamp", "add-chain", vid, mut{id: sv.name, b: sv.b}, rerr, func() error {
								var err error
								sct, err = back.ToSignedCertificateTimestamp()
								if err == nil && sct == nil {
									return fmt.Errorf("nil and nil")
								}
								return err
							}, func() string {
								got, prob := refSCT(sct)
								if prob != "" || !got.Equal(want) {
									return fmt.Sprintf("SCT = %s %s, want %s", showSCT(got), prob, showSCT(want))
								}
								wb, _ := ref.AppendSCT(nil, want)
								lb, err := tls.Marshal(*sct)
								if err != nil || string(lb) != string(wb) {
									return fmt.Sprintf("the SCT serialises to %x err=%v, want %x", lb, err, wb)
								}
								return ""
							})
							if rerr == nil && el == 1 {
								// extensions text that is not base64 must be refused
								for _, bt := range badBase64(ref.B64(pat(32, 0xfb))) {
									why, bad := bt.why, bt.text
									r2 := back
									r2.Extensions = bad
									c.strict("AddChainResponse.ToSignedCertificateTimestamp", "add-chain", vid+" extensions: "+why, mut{id: why, b: []byte(bad)},
										fmt.Errorf("%w: not base64", ref.ErrLength), func() error { _, err := r2.ToSignedCertificateTimestamp(); return err }, nil)
								}
							}
						})
					}
				}
			}
		}
	}
	c.r.Add("values_AddChainResponse", int64(n))

	// ---- SHA256Hash ------------------------------------------------------------------
	add("SHA256Hash", 10, func() {
		for _, l := range []int{0, 1, 31, 32, 33, 64} {
			for _, seed := range []byte{seedRoot, 0xfb, 0} {
				raw := pat(l, seed)
				if seed == 0 {
					raw = make([]byte, l)
				}
				vid := fmt.Sprintf("hash %dB seed %#x", l, seed)
				var rerr error
				if l != 32 {
					rerr = fmt.Errorf("%w: %d bytes", ref.ErrLength, l)
				}
				for _, api := range []string{"SHA256Hash.FromBase64String", "SHA256Hash.UnmarshalJSON"} {
					api := api
					var h ct.SHA256Hash
					c.strict(api, "SHA256Hash", vid, mut{id: vid, b: raw}, rerr, func() error {
						if api == "SHA256Hash.UnmarshalJSON" {
							return h.UnmarshalJSON([]byte(`"` + ref.B64(raw) + `"`))
						}
						return h.FromBase64String(ref.B64(raw))
					}, func() string {
						if string(h[:]) != string(raw) {
							return fmt.Sprintf("%x", h[:])
						}
						return ""
					})
				}
				if l == 32 {
					var h ct.SHA256Hash
					copy(h[:], raw)
					c.helper("SHA256Hash.Base64String", "SHA256Hash", vid, []byte(ref.B64(raw)), true, func() ([]byte, error) { return []byte(h.Base64String()), nil })
					c.helper("SHA256Hash.MarshalJSON", "SHA256Hash", vid, []byte(`"`+ref.B64(raw)+`"`), true, func() ([]byte, error) { return h.MarshalJSON() })
					for _, bt := range badBase64(ref.B64(raw)) {
						why, bad := bt.why, bt.text
						var h2 ct.SHA256Hash
						c.strict("SHA256Hash.FromBase64String", "SHA256Hash", vid+": "+why, mut{id: why, b: []byte(bad)}, fmt.Errorf("%w: not base64", ref.ErrLength),
							func() error { return h2.FromBase64String(bad) }, nil)
						var d ct.DigitallySigned
						c.strict("DigitallySigned.FromBase64String", "DigitallySigned", vid+": "+why, mut{id: why, b: []byte(bad)}, fmt.Errorf("%w: not base64", ref.ErrLength),
							func() error { return d.FromBase64String(bad) }, nil)
					}
				}
			}
		}
	})

	// ---- get-entries (s4.6), get-entry-and-proof (s4.8) ------------------------------------
	add("get-entries", 10, func() {
		e1 := ref.LeafEntry{LeafInput: fixX509Leaf, ExtraData: fixX509Extra}
		e2 := ref.LeafEntry{LeafInput: fixPrecertLeaf, ExtraData: fixPrecertExtra}
		e3 := ref.LeafEntry{LeafInput: []byte{}, ExtraData: []byte{}}
		e4 := ref.LeafEntry{LeafInput: pat(3001, 0xfb), ExtraData: pat(2, 0xff)}
		for _, es := range [][]ref.LeafEntry{{}, {e1}, {e2}, {e1, e2}, {e2, e1, e3, e4}} {
			vid := fmt.Sprintf("get-entries with %d entries", len(es))
			lib := ct.GetEntriesResponse{Entries: []ct.LeafEntry{}}
			wantArr := []any{}
			for _, e := range es {
				lib.Entries = append(lib.Entries, ct.LeafEntry{LeafInput: e.LeafInput, ExtraData: e.ExtraData})
				wantArr = append(wantArr, map[string]any{"leaf_input": ref.B64(e.LeafInput), "extra_data": ref.B64(e.ExtraData)})
			}
			c.toJSON("GetEntriesResponse", vid, lib, map[string]any{"entries": wantArr})
			var back ct.GetEntriesResponse
			if !c.fromJSON("GetEntriesResponse", vid, ref.JSONGetEntries(es), &back, lib) {
				continue
			}
			// and from the JSON body all the way to the parsed entry
			for i, e := range back.Entries {
				c.rawLogEntry("get-entries body", "get-entries", fmt.Sprintf("%s #%d", vid, i), mut{id: "identity", b: e.LeafInput}, e.LeafInput, e.ExtraData)
			}
		}
		for _, path := range [][][]byte{{}, {pat(32, 1)}, {pat(32, 1), pat(32, 0xfb), pat(1, 3)}} {
			vid := fmt.Sprintf("%d nodes", len(path))
			libPath := append([][]byte{}, path...)
			c.toJSON("GetEntryAndProofResponse", vid, ct.GetEntryAndProofResponse{LeafInput: fixX509Leaf, ExtraData: fixX509Extra, AuditPath: libPath},
				map[string]any{"leaf_input": ref.B64(fixX509Leaf), "extra_data": ref.B64(fixX509Extra), "audit_path": b64s(path)})
			var b1 ct.GetEntryAndProofResponse
			c.fromJSON("GetEntryAndProofResponse", vid, ref.JSONGetEntryAndProof(fixX509Leaf, fixX509Extra, path), &b1,
				ct.GetEntryAndProofResponse{LeafInput: fixX509Leaf, ExtraData: fixX509Extra, AuditPath: libPath})
			for _, idx := range []int64{0, 1, 1<<53 + 1, 1<<63 - 1} {
				v2 := fmt.Sprintf("%s index %d", vid, idx)
				c.toJSON("GetProofByHashResponse", v2, ct.GetProofByHashResponse{LeafIndex: idx, AuditPath: libPath}, map[string]any{"leaf_index": inum(idx), "audit_path": b64s(path)})
				var b2 ct.GetProofByHashResponse
				c.fromJSON("GetProofByHashResponse", v2, ref.JSONGetProofByHash(idx, path), &b2, ct.GetProofByHashResponse{LeafIndex: idx, AuditPath: libPath})
			}
			c.toJSON("GetSTHConsistencyResponse", vid, ct.GetSTHConsistencyResponse{Consistency: libPath}, map[string]any{"consistency": b64s(path)})
			var b3 ct.GetSTHConsistencyResponse
			c.fromJSON("GetSTHConsistencyResponse", vid, ref.JSONGetSTHConsistency(path), &b3, ct.GetSTHConsistencyResponse{Consistency: libPath})
			c.toJSON("AddChainRequest", vid, ct.AddChainRequest{Chain: libPath}, map[string]any{"chain": b64s(path)})
			var b4 ct.AddChainRequest
			c.fromJSON("AddChainRequest", vid, ref.JSONAddChainRequest(path), &b4, ct.AddChainRequest{Chain: libPath})
			// get-roots carries the base64 text itself
			texts := []string{}
			for _, p := range path {
				texts = append(texts, ref.B64(p))
			}
			c.toJSON("GetRootsResponse", vid, ct.GetRootsResponse{Certificates: texts}, map[string]any{"certificates": b64s(path)})
			var b5 ct.GetRootsResponse
			c.fromJSON("GetRootsResponse", vid, ref.JSONGetRoots(path), &b5, ct.GetRootsResponse{Certificates: texts})
		}
	})
}

func first[T any](v T, _ string) T { return v }
