//go:build verif

package c18

import (
	"context"
	"crypto/ecdsa"
	stdx509 "crypto/x509"
	"fmt"
	"net/http"
	"strings"
	"time"

	"verif/engine/enum"
	"verif/ref/fe"
	"verif/ref/pki"
	"verif/ref/reflog"

	ct "github.com/google/certificate-transparency-go"
	"github.com/google/certificate-transparency-go/trillian/ctfe"
	ctfepb "github.com/google/certificate-transparency-go/trillian/ctfe/configpb"
	"github.com/google/trillian/crypto/keys"
	"github.com/google/trillian/crypto/keys/der"
	"github.com/google/trillian/crypto/keyspb"
	"github.com/google/trillian/monitoring"
	"google.golang.org/protobuf/types/known/anypb"
)

var shardKeys = []string{"p256-2", "p256-3", "p256-4", "p256-5", "p256-6"}

// endToEnd wires a TemporalLogClient built from the shard list to one real
// front end per shard, each configured (through ValidateLogConfig) with its
// shard's window, and checks for every whole-second instant, as certificate
// and as precertificate:
//
//   - the client sends exactly one request, to the reference shard, that shard's
//     server admits it and the SCT carries that shard's log id; or, outside the
//     span, the client fails without sending anything;
//   - submitted directly, shard j's server admits the certificate <=> j is the
//     shard the client chose (routing <=> admission for every (shard, instant)).
func (c *checker) endToEnd(sp space, ws []window) {
	r := c.r
	cd := func(t *inst, via, lib, ref string) caseDesc {
		d := caseDesc{Phase: "e2e", Space: sp.name, Shards: descW(ws...), Via: via, Library: lib, Ref: ref}
		if t != nil {
			d.Instant = t.String()
		}
		return d
	}
	ro := &router{rt: map[string]http.RoundTripper{}}
	fes := make([]*fe.FE, len(ws))
	keys := make([]*pki.Key, len(ws))
	cfg := c.clientConfigFile(ws)
	for i, w := range ws {
		keys[i] = pki.LoadKey(shardKeys[i])
		f, err := c.setUpShard(int64(100+i), w, keys[i])
		if err != nil {
			r.Violation("server set-up refuses a well-formed window", fmt.Sprintf("SetUpInstance(%s): %v", w, err), cd(nil, "SetUpInstance", err.Error(), "accept"))
			return
		}
		fes[i] = f
		ro.rt[fmt.Sprintf("s%d.c18.example", i)] = fe.RoundTripper{F: f}
		cfg.Shard[i].PublicKeyDer = keys[i].SPKI
	}
	tlc, err := c.newClient(cfg, &http.Client{Transport: ro}, cd(nil, "NewTemporalLogClient", "", ""))
	if err != nil || tlc == nil {
		r.Violation("newclient refuses a contiguous list", fmt.Sprintf("NewTemporalLogClient(%v): %v", descW(ws...), err), cd(nil, "NewTemporalLogClient", fmt.Sprint(err), "accept"))
		return
	}
	ctx := context.Background()
	for _, t := range sp.insts {
		ls := c.fx.leaves[t]
		if ls == nil {
			continue
		}
		ref := route(ws, t)
		for _, pre := range []bool{false, true} {
			r.Eval(1)
			name, raw := "AddChain", ls.chain
			if pre {
				name, raw = "AddPreChain", ls.preChain
			}
			chain := make([]ct.ASN1Cert, len(raw))
			for i, d := range raw {
				chain[i] = ct.ASN1Cert{Data: d}
			}
			var sct *ct.SignedCertificateTimestamp
			var aerr error
			pan, msg, stack := enum.Catch(func() {
				if pre {
					sct, aerr = tlc.AddPreChain(ctx, chain)
				} else {
					sct, aerr = tlc.AddChain(ctx, chain)
				}
			})
			hits := ro.take()
			if pan {
				r.Violation("panic TemporalLogClient."+name, msg+"\n"+stack, cd(&t, name, "panic", ""))
				continue
			}
			r.Nontrivial("e2e|" + listKey(sp, ws) + "|" + t.String() + "|" + name)
			sent := make([]string, len(hits))
			for i, h := range hits {
				sent[i] = h.host + h.path
			}
			lib := fmt.Sprintf("requests=%v err=%v", sent, aerr)
			if len(ref) == 0 {
				if aerr != nil && len(hits) == 0 {
					r.Add("e2e_refused_without_request", 1)
				}
				if aerr == nil || len(hits) != 0 {
					r.Violation("e2e delivers a certificate outside the span", fmt.Sprintf("%s NotAfter %s, shards %v: %s", name, t, descW(ws...), lib), cd(&t, name, lib, "no shard, no request"))
				}
			} else {
				i := ref[0]
				wantHost, wantPath := fmt.Sprintf("s%d.c18.example", i), "/log"+ct.AddChainPath
				if pre {
					wantPath = "/log" + ct.AddPreChainPath
				}
				switch {
				case len(hits) == 0:
					r.Violation("e2e sends nothing for a certificate inside the span", fmt.Sprintf("%s NotAfter %s, shards %v: %s", name, t, descW(ws...), lib), cd(&t, name, lib, "shard "+fmt.Sprint(i)))
				case len(hits) != 1 || hits[0].host != wantHost || hits[0].path != wantPath:
					r.Violation("e2e sends the certificate to another shard", fmt.Sprintf("%s NotAfter %s, shards %v: %s, reference shard %d", name, t, descW(ws...), lib, i), cd(&t, name, lib, wantHost+wantPath))
				case aerr != nil:
					sig := "e2e the chosen shard's server fails"
					if strings.Contains(aerr.Error(), "NotAfter") || strings.Contains(fmt.Sprintf("%+v", aerr), "NotAfter") {
						sig = "e2e the chosen shard's server refuses the NotAfter"
					}
					r.Violation(sig, fmt.Sprintf("%s NotAfter %s, shards %v: %s", name, t, descW(ws...), lib), cd(&t, name, lib, "admitted by shard "+fmt.Sprint(i)))
				case sct != nil && sct.LogID.KeyID == keyID(keys[i]):
					r.Add("e2e_sct_from_reference_shard", 1)
				default:
					r.Violation("e2e SCT is not from the chosen shard", fmt.Sprintf("%s NotAfter %s, shards %v", name, t, descW(ws...)), cd(&t, name, lib, "SCT of shard "+fmt.Sprint(i)))
				}
			}
			// direct submission to every shard's server
			for j := range ws {
				r.Eval(1)
				resp, _ := fes[j].AddChain(pre, raw)
				admitted := resp.Status == 200
				if admitted {
					r.Add("e2e_direct_admitted", 1)
				} else {
					r.Add("e2e_direct_refused", 1)
				}
				want := ws[j].inside(t)
				routedHere := len(hits) == 1 && hits[0].host == fmt.Sprintf("s%d.c18.example", j)
				if admitted != want {
					r.Violation(fmt.Sprintf("e2e server-admission lib_inside=%v ref_inside=%v", admitted, want),
						fmt.Sprintf("front end of shard %d %s, NotAfter %s: HTTP %d %s", j, ws[j], t, resp.Status, strings.TrimSpace(string(resp.Body))),
						cd(&t, "direct "+name+" to shard "+fmt.Sprint(j), fmt.Sprintf("HTTP %d", resp.Status), fmt.Sprint(want)))
				} else if !admitted && (resp.Status != 400 || !strings.Contains(string(resp.Body), "NotAfter")) {
					r.Violation("e2e server refuses for another reason", fmt.Sprintf("front end of shard %d %s, NotAfter %s: HTTP %d %s", j, ws[j], t, resp.Status, strings.TrimSpace(string(resp.Body))),
						cd(&t, "direct "+name+" to shard "+fmt.Sprint(j), fmt.Sprintf("HTTP %d %s", resp.Status, resp.Body), "400 NotAfter"))
				}
				if admitted != routedHere {
					r.Violation(fmt.Sprintf("e2e routing-vs-admission client_routes=%v server_admits=%v", routedHere, admitted),
						fmt.Sprintf("shard %d %s of %v, %s NotAfter %s: client sent it here=%v, this server admits=%v", j, ws[j], descW(ws...), name, t, routedHere, admitted),
						cd(&t, name, fmt.Sprintf("routed=%v admitted=%v", routedHere, admitted), fmt.Sprint(want)))
				}
			}
		}
	}
}

// setUpShard builds the front end of one shard the way ct_server does: the
// LogConfig proto (with the shard's not_after_start / not_after_limit) goes
// through ValidateLogConfig and the real SetUpInstance, so the window reaches
// ValidateChain through the production wiring. The backend is ref/reflog.
func (c *checker) setUpShard(logID int64, w window, k *pki.Key) (*fe.FE, error) {
	priv, err := stdx509.MarshalECPrivateKey(k.Priv.(*ecdsa.PrivateKey))
	if err != nil {
		panic(err)
	}
	pk, err := anypb.New(&keyspb.PrivateKey{Der: priv})
	if err != nil {
		panic(err)
	}
	cfg := &ctfepb.LogConfig{LogId: logID, Prefix: "log", RootsPemFile: []string{c.rootsPEM}, PrivateKey: pk,
		PublicKey: &keyspb.PublicKey{Der: k.SPKI}, NotAfterStart: w.start.pb(), NotAfterLimit: w.limit.pb()}
	vcfg, err := ctfe.ValidateLogConfig(cfg)
	if err != nil {
		return nil, fmt.Errorf("ValidateLogConfig: %v", err)
	}
	inst, err := ctfe.SetUpInstance(context.Background(), ctfe.InstanceOptions{Validated: vcfg, Client: reflog.New(logID), Deadline: time.Hour,
		MetricFactory: monitoring.InertMetricFactory{}, RequestLog: new(ctfe.DefaultRequestLog)})
	if err != nil {
		return nil, err
	}
	return &fe.FE{Inst: inst, Log: &fe.ReqLog{}, Prefix: "/log"}, nil
}

func init() { keys.RegisterHandler(&keyspb.PrivateKey{}, der.FromProto) }
