//go:build verif

// C18 — every component draws temporal shard boundaries at the same instants.
//
// Engine B (bounded-exhaustive enumeration). Every window [start, limit) over a
// bound alphabet (absent, T, T+1ns, T+0.5s, T+1s, T+10s, ... written as protobuf
// (seconds, nanos) pairs, at several anchors T), every instant within +-1 s /
// +-1 ns of a bound, and every list of 1..k shards over the same alphabet are
// pushed through the three real implementations
//
//	server : ctfe.ValidateLogConfig -> NotAfterStart/Limit -> ctfe.ValidateChain
//	client : client.NewTemporalLogClient / IndexByDate / AddChain / AddPreChain
//	loglist: loglist3.LogList.TemporallyCompatible / Compatible (struct and JSON)
//
// and through the reference model of model_test.go. End to end, a
// TemporalLogClient is wired to one real in-process front end per shard (each
// configured with its shard's window) and must deliver every certificate to
// exactly the shard whose server admits it.
package c18

import (
	"context"
	"crypto/sha256"
	"encoding/pem"
	"fmt"
	"net/http"
	"os"
	"path/filepath"
	"sort"
	"strings"
	"sync"
	"sync/atomic"
	"testing"
	"time"

	"verif/engine/enum"
	"verif/engine/rep"
	"verif/ref/der"
	"verif/ref/pki"

	"github.com/google/certificate-transparency-go/client"
	clientpb "github.com/google/certificate-transparency-go/client/configpb"
	"github.com/google/certificate-transparency-go/loglist3"
	"github.com/google/certificate-transparency-go/trillian/ctfe"
	ctfepb "github.com/google/certificate-transparency-go/trillian/ctfe/configpb"
	"github.com/google/certificate-transparency-go/trillian/integration"
	"github.com/google/certificate-transparency-go/x509"
	"github.com/google/certificate-transparency-go/x509util"
	"github.com/google/trillian/crypto/keyspb"
	"google.golang.org/protobuf/types/known/timestamppb"
)

func fmtOff(d time.Duration) string {
	if d >= 0 {
		return "+" + d.Round(time.Second).String()
	}
	return d.Round(time.Second).String()
}

// ---------------------------------------------------------------------------
// spaces

type space struct {
	name   string
	bounds []bound
	insts  []inst
}

var (
	anchorA  = inst{sec: 1748779200}    // 2025-06-01T12:00:00Z
	anchorB  = inst{sec: -1}            // 1969-12-31T23:59:59Z: T+0.5s is (seconds:-1, nanos:5e8), T+1s the epoch
	anchorC  = inst{sec: 2524607999}    // 2049-12-31T23:59:59Z: T+1s needs GeneralizedTime in DER
	fixedNow = time.Unix(1700000000, 0) // the servers' clock; never compared with anything
)

func anchorSpace(name string, T inst, wide bool) space {
	bs := []bound{absent(), at(T, "T"), at(T.plus(0, 1), "T+1ns"), at(T.plus(0, nsPerSec/2), "T+0.5s"),
		at(T.plus(1, 0), "T+1s"), at(T.plus(10, 0), "T+10s")}
	if wide {
		bs = []bound{absent(), at(T.plus(0, -1), "T-1ns"), at(T, "T"), at(T.plus(0, 1), "T+1ns"), at(T.plus(0, nsPerSec/2), "T+0.5s"),
			at(T.plus(1, 0), "T+1s"), at(T.plus(1, 1), "T+1s+1ns"), at(T.plus(10, 0), "T+10s")}
	}
	return space{name: name, bounds: bs, insts: instantsFor(bs)}
}

// protoSpace: the (seconds, nanos) corner cases of the Timestamp encoding,
// including pairs that are not valid Timestamps.
func protoSpace() space {
	S := anchorA.sec
	bs := []bound{absent(),
		{present: true, sec: S, nanos: 0, name: "S.0"},
		{present: true, sec: S, nanos: 1, name: "S.000000001"},
		{present: true, sec: S, nanos: nsPerSec - 1, name: "S.999999999"},
		{present: true, sec: -1, nanos: nsPerSec / 2, name: "-1.5e8"},
		{present: true, sec: minSec, nanos: 0, name: "min"},
		{present: true, sec: maxSec, nanos: nsPerSec - 1, name: "max"},
		{present: true, sec: S, nanos: -1, name: "S.nanos=-1"},
		{present: true, sec: S, nanos: nsPerSec, name: "S.nanos=1e9"},
		{present: true, sec: minSec - 1, nanos: 0, name: "min-1s"},
		{present: true, sec: maxSec + 1, nanos: 0, name: "max+1s"},
	}
	return space{name: "P", bounds: bs, insts: instantsFor(bs)}
}

// ---------------------------------------------------------------------------
// fixtures: one real leaf certificate and one precertificate per whole-second instant

type leafSet struct {
	cert, pre       *pki.Cert
	parsed, preP    *x509.Certificate
	chain, preChain [][]byte
}

type fixtures struct {
	root       *pki.Cert
	rootParsed *x509.Certificate
	pool       *x509util.PEMCertPool
	spki       []byte
	leaves     map[inst]*leafSet
}

func certable(i inst) bool {
	y := i.t().Year()
	return y >= 1 && y <= 9999
}

// fracTime is the GeneralizedTime of an instant with a sub-second part (the repository's parser accepts fractions of
// a second in validity times and keeps them; RFC 5280 forbids them, so only a lenient parser ever sees such a value).
func fracTime(t time.Time) []byte {
	u := t.UTC()
	f := strings.TrimRight(fmt.Sprintf("%09d", u.Nanosecond()), "0")
	return der.TLV(0x18, []byte(u.Format("20060102150405")+"."+f+"Z"))
}

func buildFixtures(r *rep.R, spaces []space) *fixtures {
	fx := &fixtures{leaves: map[inst]*leafSet{}}
	fx.root = pki.NewRoot("c18 root", pki.LoadKey("p256-0"))
	var err error
	if fx.rootParsed, err = x509.ParseCertificate(fx.root.DER); err != nil {
		panic(err)
	}
	fx.pool = x509util.NewPEMCertPool()
	fx.pool.AddCert(fx.rootParsed)
	fx.spki = pki.LoadKey("p256-9").SPKI
	aki := fx.root.T.Key.KeyHash()
	n := 0
	for _, sp := range spaces {
		for _, i := range sp.insts {
			if !certable(i) || fx.leaves[i] != nil {
				continue
			}
			n++
			mk := func(pre bool) *pki.Cert {
				exts := []pki.Ext{pki.ExtSAN("c18.example"), pki.ExtAKI(aki[:20])}
				ser := []byte{0x18, byte(n >> 8), byte(n), 0}
				if pre {
					exts = append(exts, pki.ExtPoison())
					ser[3] = 1
				}
				tm := pki.Tmpl{Serial: ser, Issuer: fx.root.T.Subject, Subject: pki.CN(fmt.Sprintf("c18 leaf %d", n)),
					NotBefore: pki.T0, NotAfter: i.t(), Key: pki.LoadKey("p256-1"), Exts: exts}
				if !i.whole() {
					tm.NotAfterDER = fracTime(i.t())
				}
				return pki.Build(tm, fx.root.T.Key)
			}
			ls := &leafSet{cert: mk(false), pre: mk(true)}
			ls.chain = [][]byte{ls.cert.DER, fx.root.DER}
			ls.preChain = [][]byte{ls.pre.DER, fx.root.DER}
			for _, pc := range []struct {
				c   *pki.Cert
				out **x509.Certificate
			}{{ls.cert, &ls.parsed}, {ls.pre, &ls.preP}} {
				p, err := x509.ParseCertificate(pc.c.DER)
				if p == nil || x509.IsFatal(err) {
					r.Violation("fixture certificate does not parse", fmt.Sprintf("NotAfter %s: %v", i, err), i.String())
					continue
				}
				if !p.NotAfter.Equal(i.t()) {
					r.Violation("x509 NotAfter differs from the template", fmt.Sprintf("template NotAfter %s parsed as %s", i, p.NotAfter), i.String())
				}
				*pc.out = p
			}
			if ls.parsed != nil && ls.preP != nil {
				fx.leaves[i] = ls
			}
		}
	}
	r.Set("real_certificates", 2*len(fx.leaves))
	return fx
}

// ---------------------------------------------------------------------------

type caseDesc struct {
	Phase   string   `json:"phase"`
	Space   string   `json:"space"`
	Shards  []string `json:"shards"`
	Instant string   `json:"instant,omitempty"`
	Via     string   `json:"via,omitempty"`
	Library string   `json:"library"`
	Ref     string   `json:"reference"`
}

func descW(ws ...window) []string {
	out := make([]string, len(ws))
	for i, w := range ws {
		out[i] = w.String()
	}
	return out
}

type checker struct {
	r        *rep.R
	fx       *fixtures
	hc       *http.Client // never reached in the pure phases
	rootsPEM string       // file holding the trusted root, for SetUpInstance
	tmpDir   string
	tmpSeq   atomic.Int64
}

type noNet struct{}

func (noNet) RoundTrip(*http.Request) (*http.Response, error) {
	return nil, fmt.Errorf("c18: no request expected here")
}

func (c *checker) nontrivial(sp space, w window, t inst, comp string) {
	// rule: the instant lies within 1 ns of a present bound of the window
	if (w.start.present && w.start.valid() && t.absDiffLE(w.start.at(), 1)) || (w.limit.present && w.limit.valid() && t.absDiffLE(w.limit.at(), 1)) {
		c.r.Nontrivial(comp + "|" + sp.name + "|" + w.key() + "|" + t.String())
	}
}

// serverConfig runs the window through the server's configuration path:
// ValidateLogConfig on a LogConfig built in memory or, viaFile, on one loaded
// with ctfe.LogConfigFromFile from a hand-written text-format file.
func (c *checker) serverConfig(w window, viaFile bool) (*ctfe.ValidatedLogConfig, error) {
	cfg := &ctfepb.LogConfig{LogId: 1, Prefix: "log", IsMirror: true, PublicKey: &keyspb.PublicKey{Der: c.fx.spki},
		NotAfterStart: w.start.pb(), NotAfterLimit: w.limit.pb()}
	if viaFile {
		var b strings.Builder
		b.WriteString("config {\n  log_id: 1\n  prefix: \"log\"\n  is_mirror: true\n  public_key { der: \"")
		for _, x := range c.fx.spki {
			fmt.Fprintf(&b, "\\x%02x", x)
		}
		b.WriteString("\" }\n")
		b.WriteString(tsText("not_after_start", w.start) + tsText("not_after_limit", w.limit) + "}\n")
		name := c.writeTemp(b.String())
		cfgs, err := ctfe.LogConfigFromFile(name)
		os.Remove(name)
		if err != nil || len(cfgs) != 1 {
			panic(fmt.Sprintf("harness: LogConfigFromFile: %v\n%s", err, b.String()))
		}
		cfg = cfgs[0]
	}
	var v *ctfe.ValidatedLogConfig
	var err error
	if pan, msg, stack := enum.Catch(func() { v, err = ctfe.ValidateLogConfig(cfg) }); pan {
		c.r.Violation("panic ValidateLogConfig", msg+"\n"+stack, caseDesc{Phase: "window", Shards: descW(w)})
		return nil, fmt.Errorf("panic")
	}
	return v, err
}

// tsText writes one Timestamp field in protobuf text format.
func tsText(field string, b bound) string {
	if !b.present {
		return ""
	}
	return fmt.Sprintf("  %s { seconds: %d nanos: %d }\n", field, b.sec, b.nanos)
}

// writeTemp writes a scratch file and returns its name; the directory is removed at the end.
func (c *checker) writeTemp(content string) string {
	n := c.tmpSeq.Add(1)
	name := filepath.Join(c.tmpDir, fmt.Sprintf("cfg-%d.txt", n))
	if err := os.WriteFile(name, []byte(content), 0o600); err != nil {
		panic(err)
	}
	return name
}

// clientConfigFile is clientConfig through a hand-written text-format file and
// client.TemporalLogConfigFromFile.
func (c *checker) clientConfigFile(ws []window) *clientpb.TemporalLogConfig {
	var b strings.Builder
	for i, w := range ws {
		fmt.Fprintf(&b, "shard {\n  uri: \"http://s%d.c18.example/log\"\n%s%s}\n", i, tsText("not_after_start", w.start), tsText("not_after_limit", w.limit))
	}
	name := c.writeTemp(b.String())
	cfg, err := client.TemporalLogConfigFromFile(name)
	os.Remove(name)
	if err != nil {
		panic(fmt.Sprintf("harness: TemporalLogConfigFromFile: %v\n%s", err, b.String()))
	}
	return cfg
}

func clientConfig(ws []window) *clientpb.TemporalLogConfig {
	cfg := &clientpb.TemporalLogConfig{}
	for i, w := range ws {
		cfg.Shard = append(cfg.Shard, &clientpb.LogShardConfig{Uri: fmt.Sprintf("http://s%d.c18.example/log", i),
			NotAfterStart: w.start.pb(), NotAfterLimit: w.limit.pb()})
	}
	return cfg
}

func (c *checker) newClient(cfg *clientpb.TemporalLogConfig, hc *http.Client, cd caseDesc) (*client.TemporalLogClient, error) {
	var tlc *client.TemporalLogClient
	var err error
	if pan, msg, stack := enum.Catch(func() { tlc, err = client.NewTemporalLogClient(cfg, hc) }); pan {
		c.r.Violation("panic NewTemporalLogClient", msg+"\n"+stack, cd)
		return nil, fmt.Errorf("panic")
	}
	return tlc, err
}

func checkBound(got *time.Time, want bound) bool {
	if !want.present {
		return got == nil
	}
	return got != nil && got.Unix() == want.sec && int32(got.Nanosecond()) == want.nanos
}

func showT(p *time.Time) string {
	if p == nil {
		return "absent"
	}
	return p.UTC().Format(time.RFC3339Nano)
}

var otherZone = time.FixedZone("c18+14", 14*3600)

// checkWindow: one window through server, client and the cross comparison.
func (c *checker) checkWindow(sp space, w window, viaFile bool) {
	r := c.r
	how := ""
	if viaFile {
		how = " (config from a text-format file)"
	}
	cd := func(t *inst, via, lib, ref string) caseDesc {
		d := caseDesc{Phase: "window", Space: sp.name, Shards: descW(w), Via: via + how, Library: lib, Ref: ref}
		if t != nil {
			d.Instant = t.String()
		}
		return d
	}
	sig := func(comp string, lib, ref bool, t inst) string {
		return fmt.Sprintf("%s lib_inside=%v ref_inside=%v near=%s", comp, lib, ref, w.near(t))
	}

	// ---- server configuration
	r.Eval(1)
	vcfg, serr := c.serverConfig(w, viaFile)
	var sStart, sLimit *time.Time
	serverUsable := false
	switch {
	case !w.valid():
		if serr == nil {
			r.Violation("server-config accepts an invalid timestamp", fmt.Sprintf("ValidateLogConfig accepts %s", w), cd(nil, "ValidateLogConfig", "accepted", "refuse"))
		}
	case w.inverted() || w.empty():
		// the statement does not say whether a server may be configured with an
		// inverted or empty window; whatever is configured must admit nothing.
		if serr == nil {
			sStart, sLimit, serverUsable = vcfg.NotAfterStart, vcfg.NotAfterLimit, true
		} else {
			a, b := w.start.at().t(), w.limit.at().t()
			sStart, sLimit, serverUsable = &a, &b, true
		}
	default:
		if serr != nil {
			r.Violation("server-config refuses a well-formed window", fmt.Sprintf("ValidateLogConfig(%s): %v", w, serr), cd(nil, "ValidateLogConfig", serr.Error(), "accept"))
		} else {
			sStart, sLimit, serverUsable = vcfg.NotAfterStart, vcfg.NotAfterLimit, true
		}
	}
	if serr == nil && w.valid() {
		if !checkBound(vcfg.NotAfterStart, w.start) || !checkBound(vcfg.NotAfterLimit, w.limit) {
			r.Violation("server-config bound conversion", fmt.Sprintf("ValidateLogConfig(%s) yields [%s, %s)", w, showT(vcfg.NotAfterStart), showT(vcfg.NotAfterLimit)),
				cd(nil, "ValidateLogConfig", "["+showT(vcfg.NotAfterStart)+", "+showT(vcfg.NotAfterLimit)+")", w.String()))
		}
	}
	admits := map[inst]bool{}
	if serverUsable {
		opts := ctfe.NewCertValidationOpts(c.fx.pool, fixedNow, false, false, sStart, sLimit, false, nil)
		// the same bounds expressed in another time zone: only the instant may matter
		var zs, zl *time.Time
		if sStart != nil {
			z := sStart.In(otherZone)
			zs = &z
		}
		if sLimit != nil {
			z := sLimit.In(otherZone)
			zl = &z
		}
		zopts := ctfe.NewCertValidationOpts(c.fx.pool, fixedNow, false, false, zs, zl, false, nil)
		for _, t := range sp.insts {
			ls := c.fx.leaves[t]
			if ls == nil {
				continue
			}
			want := w.inside(t)
			for vi, v := range []struct {
				name  string
				chain [][]byte
				o     ctfe.CertValidationOpts
			}{{"ValidateChain(cert)", ls.chain, opts}, {"ValidateChain(precert)", ls.preChain, opts}, {"ValidateChain(cert, bounds in another zone)", ls.chain, zopts}} {
				r.Eval(1)
				var err error
				var path []*x509.Certificate
				if pan, msg, stack := enum.Catch(func() { path, err = ctfe.ValidateChain(v.chain, v.o) }); pan {
					r.Violation("panic ValidateChain", msg+"\n"+stack, cd(&t, v.name, "panic", ""))
					continue
				}
				got := err == nil
				if vi == 0 {
					admits[t] = got
					c.nontrivial(sp, w, t, "server"+how)
				}
				if got != want {
					r.Violation(sig("server-admission", got, want, t), fmt.Sprintf("%s window %s NotAfter %s: err=%v, reference inside=%v", v.name, w, t, err, want),
						cd(&t, v.name, fmt.Sprint(err), fmt.Sprint(want)))
				} else if got && (len(path) != 2 || !path[0].NotAfter.Equal(t.t())) {
					r.Violation("server-admission returns another chain", fmt.Sprintf("%s window %s NotAfter %s: path of %d", v.name, w, t, len(path)), cd(&t, v.name, "", ""))
				} else if !got && !strings.Contains(err.Error(), "NotAfter") {
					r.Violation("server-admission refuses for another reason", fmt.Sprintf("%s window %s NotAfter %s: %v", v.name, w, t, err), cd(&t, v.name, err.Error(), "NotAfter window"))
				}
			}
		}
	}

	// ---- the window together with the expiry modes of a log (reject_expired / reject_unexpired), on an
	// injected clock before, at and after the instant and on the real clock (currentTime unset; only for
	// instants of 1969 and 2049, whose side of the real clock is not in doubt)
	if serverUsable {
		for _, t := range sp.insts {
			ls := c.fx.leaves[t]
			if ls == nil {
				continue
			}
			for _, mode := range []string{"reject-expired", "reject-unexpired"} {
				for _, ck := range []string{"fixed-2023", "at-NotAfter", "NotAfter+1ns", "real"} {
					var now time.Time
					var expired bool
					switch ck {
					case "fixed-2023":
						now = fixedNow
					case "at-NotAfter":
						now = t.t()
					case "NotAfter+1ns":
						now = t.t().Add(1)
					case "real":
						if y := t.t().UTC().Year(); y != 1969 && y != 1970 && y != 2049 && y != 2050 {
							continue
						}
					}
					if ck != "real" && now.IsZero() {
						continue // year 1, 1 January: the zero time.Time is how "no injected clock" is spelt
					}
					if ck == "real" {
						expired = t.t().UTC().Year() <= 1970
					} else {
						expired = now.After(t.t())
					}
					want := w.inside(t) && ((mode == "reject-expired" && !expired) || (mode == "reject-unexpired" && expired))
					o := ctfe.NewCertValidationOpts(c.fx.pool, now, mode == "reject-expired", mode == "reject-unexpired", sStart, sLimit, false, nil)
					r.Eval(1)
					var err error
					name := "ValidateChain(cert, " + mode + ", clock " + ck + ")"
					if pan, msg, stack := enum.Catch(func() { _, err = ctfe.ValidateChain(ls.chain, o) }); pan {
						r.Violation("panic ValidateChain", msg+"\n"+stack, cd(&t, name, "panic", ""))
						continue
					}
					if got := err == nil; got != want {
						r.Violation(sig("server-admission-with-expiry-mode", got, want, t), fmt.Sprintf("%s window %s NotAfter %s: err=%v, reference inside=%v expired=%v", name, w, t, err, w.inside(t), expired),
							cd(&t, name, fmt.Sprint(err), fmt.Sprint(want)))
					}
					c.r.Add("server_admissions_with_expiry_mode", 1)
				}
			}
		}
	}

	// ---- the integration helper that picks a NotAfter for a configured log
	if !viaFile && w.valid() && !w.inverted() && !w.empty() && (w.start.present || w.limit.present) {
		r.Eval(1)
		var na time.Time
		var nerr error
		if pan, msg, stack := enum.Catch(func() {
			na, nerr = integration.NotAfterForLog(&ctfepb.LogConfig{NotAfterStart: w.start.pb(), NotAfterLimit: w.limit.pb()})
		}); pan {
			r.Violation("panic NotAfterForLog", msg+"\n"+stack, cd(nil, "NotAfterForLog", "panic", ""))
		} else {
			pick := inst{na.Unix(), int32(na.Nanosecond())}
			if nerr != nil || !w.inside(pick) {
				r.Violation("integration NotAfterForLog picks an instant outside the window", fmt.Sprintf("NotAfterForLog(%s) = %s, %v", w, pick, nerr), cd(&pick, "NotAfterForLog", fmt.Sprint(nerr), "inside"))
			} else if !w.inside(inst{pick.sec, 0}) {
				// informational: DER drops the fraction, the certificate would land outside
				r.Add("notafterforlog_outside_once_truncated_to_der_seconds", 1)
			}
		}
	}

	// ---- client: a single-shard temporal client
	r.Eval(1)
	ws := []window{w}
	want, why := judgeList(ws)
	ccfg := clientConfig(ws)
	if viaFile {
		ccfg = c.clientConfigFile(ws)
	}
	tlc, cerr := c.newClient(ccfg, c.hc, cd(nil, "NewTemporalLogClient", "", ""))
	routes := map[inst]bool{}
	if (cerr == nil) != (want == accept) && want != dontcare {
		if cerr == nil {
			r.Violation("newclient accepts "+why, fmt.Sprintf("NewTemporalLogClient accepts the single shard %s", w), cd(nil, "NewTemporalLogClient", "accepted", "refuse: "+why))
		} else {
			r.Violation("newclient refuses a well-formed shard", fmt.Sprintf("NewTemporalLogClient(%s): %v", w, cerr), cd(nil, "NewTemporalLogClient", cerr.Error(), "accept"))
		}
	}
	if want == dontcare {
		if cerr == nil {
			r.Add("empty_shard_lists_accepted", 1)
		} else {
			r.Add("empty_shard_lists_refused", 1)
		}
	}
	if cerr == nil && tlc != nil && w.valid() {
		for _, t := range sp.insts {
			for zi, tt := range []time.Time{t.t(), t.t().In(otherZone)} {
				r.Eval(1)
				var idx int
				var err error
				if pan, msg, stack := enum.Catch(func() { idx, err = tlc.IndexByDate(tt) }); pan {
					r.Violation("panic IndexByDate", msg+"\n"+stack, cd(&t, "IndexByDate", "panic", ""))
					continue
				}
				got, wantIn := err == nil, w.inside(t)
				if zi == 0 {
					routes[t] = got
					c.nontrivial(sp, w, t, "client"+how)
				}
				if got != wantIn || (got && idx != 0) {
					r.Violation(sig("client-indexbydate", got, wantIn, t), fmt.Sprintf("IndexByDate(%s) on the single shard %s = (%d, %v), reference inside=%v", t, w, idx, err, wantIn),
						cd(&t, "IndexByDate", fmt.Sprintf("(%d, %v)", idx, err), fmt.Sprint(wantIn)))
				}
			}
		}
	}

	// ---- cross: the client routes a certificate here <=> a server with this window admits it
	if serverUsable && cerr == nil && w.valid() && !w.inverted() {
		for _, t := range sp.insts {
			a, ok1 := admits[t]
			ro, ok2 := routes[t]
			if !ok1 || !ok2 {
				continue
			}
			r.Eval(1)
			if a != ro {
				r.Violation(fmt.Sprintf("routing-vs-admission client_routes=%v server_admits=%v near=%s", ro, a, w.near(t)),
					fmt.Sprintf("window %s NotAfter %s: the client routes=%v, the server admits=%v", w, t, ro, a), cd(&t, "IndexByDate vs ValidateChain", fmt.Sprintf("routes=%v admits=%v", ro, a), fmt.Sprint(w.inside(t))))
			}
		}
	}
}

// ---------------------------------------------------------------------------
// loglist3

type llEntry struct {
	w   window
	url string
	op  int
}

func (c *checker) checkLogList(sp space) {
	r := c.r
	// one list holding every representable window: operators group by start bound
	var ents []llEntry
	ll := &loglist3.LogList{Version: "c18"}
	var js strings.Builder
	js.WriteString(`{"version":"c18","operators":[`)
	skipped := 0
	for si, s := range sp.bounds {
		if !s.valid() {
			continue
		}
		op := &loglist3.Operator{Name: "op start=" + s.name, Logs: []*loglist3.Log{}}
		var ojs []string
		for _, l := range sp.bounds {
			if !l.valid() {
				continue
			}
			w := window{s, l}
			if s.present && !l.present {
				skipped++ // TemporalInterval has no way to say "no upper bound"
				continue
			}
			url := "https://ct.c18.example/" + s.name + "/" + l.name + "/"
			lg := &loglist3.Log{URL: url, Description: w.String()}
			tj := ""
			switch {
			case !s.present && !l.present:
				// nil interval
			case !s.present:
				// the only representation: the zero time.Time (what an omitted
				// start_inclusive decodes to), 0001-01-01T00:00:00Z, at or before every
				// instant enumerated here
				lg.TemporalInterval = &loglist3.TemporalInterval{EndExclusive: l.at().t()}
				tj = fmt.Sprintf(`,"temporal_interval":{"end_exclusive":%q}`, l.at().String())
			default:
				lg.TemporalInterval = &loglist3.TemporalInterval{StartInclusive: s.at().t(), EndExclusive: l.at().t()}
				tj = fmt.Sprintf(`,"temporal_interval":{"start_inclusive":%q,"end_exclusive":%q}`, s.at().String(), l.at().String())
			}
			op.Logs = append(op.Logs, lg)
			ojs = append(ojs, fmt.Sprintf(`{"description":%q,"log_id":"","key":"","url":%q,"mmd":86400%s}`, w.String(), url, tj))
			ents = append(ents, llEntry{w: w, url: url, op: len(ll.Operators)})
		}
		if len(ll.Operators) > 0 {
			js.WriteString(",")
		}
		fmt.Fprintf(&js, `{"name":%q,"email":[],"logs":[%s],"tiled_logs":[]}`, op.Name, strings.Join(ojs, ","))
		ll.Operators = append(ll.Operators, op)
		_ = si
	}
	js.WriteString("]}")
	r.Add("loglist_windows_not_representable", int64(skipped))

	llJSON, jerr := loglist3.NewFromJSON([]byte(js.String()))
	if jerr != nil {
		r.Violation("loglist JSON does not parse", jerr.Error(), caseDesc{Phase: "loglist", Space: sp.name, Library: jerr.Error()})
	} else {
		// the parsed bounds must be the instants written
		k := 0
		for _, op := range llJSON.Operators {
			for _, lg := range op.Logs {
				e := ents[k]
				k++
				r.Eval(1)
				ok := true
				switch {
				case !e.w.start.present && !e.w.limit.present:
					ok = lg.TemporalInterval == nil
				case lg.TemporalInterval == nil:
					ok = false
				default:
					if e.w.start.present {
						ok = checkBound(&lg.TemporalInterval.StartInclusive, e.w.start)
					} else {
						ok = lg.TemporalInterval.StartInclusive.IsZero()
					}
					ok = ok && checkBound(&lg.TemporalInterval.EndExclusive, e.w.limit)
				}
				if !ok {
					r.Violation("loglist JSON bound conversion", fmt.Sprintf("window %s parsed as %+v", e.w, lg.TemporalInterval), caseDesc{Phase: "loglist", Space: sp.name, Shards: descW(e.w)})
				}
			}
		}
	}

	flat := func(l loglist3.LogList) []string {
		var out []string
		for _, op := range l.Operators {
			if len(op.Logs) == 0 {
				out = append(out, op.Name+" (kept without logs)")
			}
			for _, lg := range op.Logs {
				out = append(out, op.Name+"|"+lg.URL)
			}
		}
		return out
	}
	type variant struct {
		name string
		run  func(cert *x509.Certificate) loglist3.LogList
	}
	variants := []variant{
		{"TemporallyCompatible", func(cert *x509.Certificate) loglist3.LogList { return ll.TemporallyCompatible(cert) }},
		{"Compatible(no root)", func(cert *x509.Certificate) loglist3.LogList { return ll.Compatible(cert, nil, nil) }},
		{"Compatible(root, no per-log roots)", func(cert *x509.Certificate) loglist3.LogList {
			return ll.Compatible(cert, c.fx.rootParsed, loglist3.LogRoots{})
		}},
	}
	// the same instants written with a zone offset (log lists are JSON, RFC 3339 allows any offset): an instant is an instant
	zoned := func(z *time.Location) *loglist3.LogList {
		cp := &loglist3.LogList{Version: ll.Version}
		for _, op := range ll.Operators {
			o := &loglist3.Operator{Name: op.Name, Email: op.Email}
			for _, lg := range op.Logs {
				l2 := *lg
				if lg.TemporalInterval != nil {
					ti := &loglist3.TemporalInterval{EndExclusive: lg.TemporalInterval.EndExclusive.In(z)}
					if !lg.TemporalInterval.StartInclusive.IsZero() {
						ti.StartInclusive = lg.TemporalInterval.StartInclusive.In(z)
					}
					l2.TemporalInterval = ti
				}
				o.Logs = append(o.Logs, &l2)
			}
			cp.Operators = append(cp.Operators, o)
		}
		return cp
	}
	for _, z := range []*time.Location{otherZone, time.FixedZone("c18-12", -12*3600)} {
		lz := zoned(z)
		variants = append(variants, variant{"TemporallyCompatible(bounds written in zone " + z.String() + ")", func(cert *x509.Certificate) loglist3.LogList { return lz.TemporallyCompatible(cert) }})
	}
	if llJSON != nil {
		variants = append(variants, variant{"NewFromJSON+TemporallyCompatible", func(cert *x509.Certificate) loglist3.LogList { return llJSON.TemporallyCompatible(cert) }})
	}
	enum.ParFor(len(sp.insts), nil, func(ti int) {
		t := sp.insts[ti]
		if t.sec < minSec {
			// before the zero time.Time: the stand-in for an absent start would no
			// longer be "at or before" the instant; no certificate can carry it anyway
			return
		}
		// reference
		var want []string
		wantSet := map[string]bool{}
		for _, e := range ents {
			if e.w.inside(t) {
				s := ll.Operators[e.op].Name + "|" + e.url
				want = append(want, s)
				wantSet[s] = true
			}
		}
		type certv struct {
			name string
			c    *x509.Certificate
		}
		certs := []certv{{"x509.Certificate{NotAfter}", &x509.Certificate{NotAfter: t.t()}}, {"x509.Certificate{NotAfter in another zone}", &x509.Certificate{NotAfter: t.t().In(otherZone)}}}
		if ls := c.fx.leaves[t]; ls != nil {
			certs = append(certs, certv{"parsed certificate", ls.parsed}, certv{"parsed precertificate", ls.preP})
		}
		for _, cv := range certs {
			for _, v := range variants {
				r.Eval(len(ents))
				var got []string
				if pan, msg, stack := enum.Catch(func() { got = flat(v.run(cv.c)) }); pan {
					r.Violation("panic "+v.name, msg+"\n"+stack, caseDesc{Phase: "loglist", Space: sp.name, Instant: t.String(), Via: v.name})
					continue
				}
				if strings.Join(got, "\n") == strings.Join(want, "\n") {
					continue
				}
				// name every window that differs
				gotSet := map[string]bool{}
				for _, g := range got {
					gotSet[g] = true
				}
				reported := false
				for _, e := range ents {
					s := ll.Operators[e.op].Name + "|" + e.url
					if gotSet[s] != wantSet[s] {
						reported = true
						r.Violation(fmt.Sprintf("loglist-compatible lib_inside=%v ref_inside=%v near=%s", gotSet[s], wantSet[s], e.w.near(t)),
							fmt.Sprintf("%s with %s, NotAfter %s, log interval %s: kept=%v, reference inside=%v", v.name, cv.name, t, e.w, gotSet[s], wantSet[s]),
							caseDesc{Phase: "loglist", Space: sp.name, Shards: descW(e.w), Instant: t.String(), Via: v.name + " / " + cv.name, Library: fmt.Sprint(gotSet[s]), Ref: fmt.Sprint(wantSet[s])})
					}
				}
				if !reported {
					r.Violation("loglist-compatible result structure", fmt.Sprintf("%s NotAfter %s: got %q, want %q", v.name, t, got, want),
						caseDesc{Phase: "loglist", Space: sp.name, Instant: t.String(), Via: v.name, Library: strings.Join(got, " "), Ref: strings.Join(want, " ")})
				}
			}
		}
		for _, e := range ents {
			c.nontrivial(sp, e.w, t, "loglist")
		}
	})
	// nil certificate: nothing is compatible
	r.Eval(1)
	if got := flat(ll.TemporallyCompatible(nil)); len(got) != 0 {
		r.Violation("loglist-compatible nil certificate keeps logs", fmt.Sprint(got), caseDesc{Phase: "loglist", Space: sp.name})
	}
}

// ---------------------------------------------------------------------------
// shard lists

type listSpace struct {
	sp   space
	k    int // exactly k shards
	dims []int
}

func (ls listSpace) size() int { return enum.Size(ls.dims) }

func (ls listSpace) decode(i int) []window {
	idx := enum.Decode(i, ls.dims, make([]int, 0, len(ls.dims)))
	ws := make([]window, ls.k)
	for j := range ws {
		ws[j] = window{ls.sp.bounds[idx[2*j]], ls.sp.bounds[idx[2*j+1]]}
	}
	return ws
}

func newListSpace(sp space, k int) listSpace {
	d := make([]int, 2*k)
	for i := range d {
		d[i] = len(sp.bounds)
	}
	return listSpace{sp: sp, k: k, dims: d}
}

func listKey(sp space, ws []window) string {
	var b strings.Builder
	b.WriteString(sp.name)
	for _, w := range ws {
		b.WriteString("|" + w.key())
	}
	return b.String()
}

// checkList: construction verdict and, when constructed, the choice for every instant.
func (c *checker) checkList(sp space, ws []window) (constructed *client.TemporalLogClient, want verdict) {
	r := c.r
	r.Eval(1)
	want, why := judgeList(ws)
	cd := func(t *inst, lib, ref string) caseDesc {
		d := caseDesc{Phase: "lists", Space: sp.name, Shards: descW(ws...), Library: lib, Ref: ref}
		if t != nil {
			d.Instant = t.String()
		}
		return d
	}
	tlc, err := c.newClient(clientConfig(ws), c.hc, cd(nil, "", ""))
	switch {
	case want == dontcare:
		if err == nil {
			r.Add("empty_shard_lists_accepted", 1)
		} else {
			r.Add("empty_shard_lists_refused", 1)
		}
	case want == accept && err != nil:
		r.Violation("newclient refuses a contiguous list", fmt.Sprintf("NewTemporalLogClient(%v): %v", descW(ws...), err), cd(nil, err.Error(), "accept"))
	case want == refuse && err == nil:
		r.Violation("newclient accepts "+why, fmt.Sprintf("NewTemporalLogClient accepts %v (%s)", descW(ws...), why), cd(nil, "accepted", "refuse: "+why))
	}
	if want == refuse {
		// non-trivial when exactly this rule separates it from an acceptable list is
		// hard to state; count every refused list that consists of well-formed, non-inverted shards
		if why != "invalid-timestamp" && why != "inverted" {
			r.Nontrivial("list|" + listKey(sp, ws))
		}
	}
	if err != nil || tlc == nil {
		return nil, want
	}
	if want == accept {
		r.Nontrivial("list|" + listKey(sp, ws))
		r.Add("lists_constructed", 1)
	}
	allValid := true
	for _, w := range ws {
		allValid = allValid && w.valid()
	}
	if !allValid {
		return tlc, want
	}
	sp0 := span(ws)
	for _, t := range sp.insts {
		r.Eval(1)
		var idx int
		var ierr error
		if pan, msg, stack := enum.Catch(func() { idx, ierr = tlc.IndexByDate(t.t()) }); pan {
			r.Violation("panic IndexByDate", msg+"\n"+stack, cd(&t, "panic", ""))
			continue
		}
		ref := route(ws, t)
		if want == accept || want == dontcare {
			// harness self-check: in a contiguous list exactly the instants of the span have exactly one shard
			if len(ref) > 1 || (len(ref) == 1) != sp0.inside(t) {
				panic(fmt.Sprintf("reference model inconsistent: %v %s -> %v", descW(ws...), t, ref))
			}
		}
		switch {
		case ierr == nil && (idx < 0 || idx >= len(ws)):
			r.Violation("indexbydate-list index out of range", fmt.Sprintf("%v IndexByDate(%s) = %d", descW(ws...), t, idx), cd(&t, fmt.Sprint(idx), fmt.Sprint(ref)))
		case ierr == nil && len(ref) == 0:
			r.Violation("indexbydate-list routes an instant outside every shard", fmt.Sprintf("%v IndexByDate(%s) = %d, no shard contains it", descW(ws...), t, idx), cd(&t, fmt.Sprint(idx), "none"))
		case ierr != nil && len(ref) > 0:
			r.Violation("indexbydate-list routes nowhere inside the span", fmt.Sprintf("%v IndexByDate(%s): %v, reference shard %v", descW(ws...), t, ierr, ref), cd(&t, ierr.Error(), fmt.Sprint(ref)))
		case ierr == nil && !ws[idx].inside(t):
			r.Violation("indexbydate-list wrong shard", fmt.Sprintf("%v IndexByDate(%s) = %d, reference shard %v", descW(ws...), t, idx, ref), cd(&t, fmt.Sprint(idx), fmt.Sprint(ref)))
		}
	}
	return tlc, want
}

func (c *checker) runLists(ls listSpace) {
	n := ls.size()
	c.r.Add(fmt.Sprintf("lists_%s_%dshards", ls.sp.name, ls.k), int64(n))
	done := enum.ParFor(n, c.r.Expired, func(i int) {
		ws := ls.decode(i)
		if pan, msg, stack := enum.Catch(func() { c.checkList(ls.sp, ws) }); pan {
			c.r.Violation("harness-panic", msg+"\n"+stack, caseDesc{Phase: "lists", Space: ls.sp.name, Shards: descW(ws...)})
		}
	})
	if !done {
		c.r.Capped(fmt.Sprintf("deadline reached in the %d-shard lists of space %s", ls.k, ls.sp.name))
	}
}

// acceptableLists enumerates the reference-acceptable lists of exactly k shards.
func acceptableLists(ls listSpace) [][]window {
	var mu sync.Mutex
	var idx []int
	enum.ParFor(ls.size(), nil, func(i int) {
		if v, _ := judgeList(ls.decode(i)); v == accept {
			mu.Lock()
			idx = append(idx, i)
			mu.Unlock()
		}
	})
	sort.Ints(idx)
	out := make([][]window, len(idx))
	for j, i := range idx {
		out[j] = ls.decode(i)
	}
	return out
}

// samples re-runs a few fixed cases sequentially and writes them out.
func (c *checker) samples() {
	T := anchorA
	b := func(i inst, n string) bound { return at(i, n) }
	half := T.plus(0, nsPerSec/2)
	show := func(w window, t inst) map[string]any {
		m := map[string]any{"window": w.String(), "instant": t.String(), "reference_inside": w.inside(t)}
		if vcfg, err := c.serverConfig(w, false); err == nil {
			if ls := c.fx.leaves[t]; ls != nil {
				_, verr := ctfe.ValidateChain(ls.chain, ctfe.NewCertValidationOpts(c.fx.pool, fixedNow, false, false, vcfg.NotAfterStart, vcfg.NotAfterLimit, false, nil))
				m["server_ValidateChain"] = fmt.Sprint(verr)
			}
		}
		if tlc, err := client.NewTemporalLogClient(clientConfig([]window{w}), c.hc); err == nil {
			i, ierr := tlc.IndexByDate(t.t())
			m["client_IndexByDate"] = fmt.Sprintf("(%d, %v)", i, ierr)
		}
		if w.both() {
			ll := &loglist3.LogList{Operators: []*loglist3.Operator{{Name: "op", Logs: []*loglist3.Log{{URL: "u", TemporalInterval: &loglist3.TemporalInterval{StartInclusive: w.start.at().t(), EndExclusive: w.limit.at().t()}}}}}}
			m["loglist_kept"] = len(ll.TemporallyCompatible(&x509.Certificate{NotAfter: t.t()}).Operators) == 1
		}
		return m
	}
	c.r.Sample(show(window{b(T, "T"), b(T.plus(1, 0), "T+1s")}, T.plus(1, 0)))
	c.r.Sample(show(window{b(T, "T"), b(T.plus(1, 0), "T+1s")}, T))
	c.r.Sample(show(window{b(T.plus(0, 1), "T+1ns"), b(T.plus(10, 0), "T+10s")}, T))
	ws := []window{{absent(), b(T, "T")}, {b(T, "T"), b(half, "T+0.5s")}, {b(half, "T+0.5s"), absent()}}
	if tlc, err := client.NewTemporalLogClient(clientConfig(ws), c.hc); err == nil {
		m := map[string]any{"shards": descW(ws...)}
		for _, t := range []inst{T.plus(0, -1), T, half.plus(0, -1), half} {
			i, ierr := tlc.IndexByDate(t.t())
			m["IndexByDate("+t.String()+")"] = fmt.Sprintf("(%d, %v) reference %v", i, ierr, route(ws, t))
		}
		c.r.Sample(m)
	}
	bad := []window{{absent(), b(T, "T")}, {b(T.plus(0, 1), "T+1ns"), absent()}}
	_, err := client.NewTemporalLogClient(clientConfig(bad), c.hc)
	v, why := judgeList(bad)
	c.r.Sample(map[string]any{"shards": descW(bad...), "NewTemporalLogClient": fmt.Sprint(err), "reference": v.String() + ": " + why})
}

// ---------------------------------------------------------------------------

func TestCheck(t *testing.T) {
	r := rep.New("C18", "exploration")
	th := r.Thorough()
	r.Rule("spaces: anchor T in {2025-06-01T12:00:00Z, 1969-12-31T23:59:59Z (negative proto seconds)" + map[bool]string{false: "", true: ", 2049-12-31T23:59:59Z (UTCTime/GeneralizedTime switch)"}[th] +
		"} with bounds {absent, T, T+1ns, T+0.5s, T+1s, T+10s" + map[bool]string{false: "", true: ", T-1ns, T+1s+1ns"}[th] + "} and a space P of Timestamp corner cases (nanos 0/1/999999999, seconds -1/min/max, and the invalid nanos -1/1e9, seconds min-1/max+1); " +
		"every window (start, limit) of each space, configured in memory and through hand-written text-format files (LogConfigFromFile / TemporalLogConfigFromFile), x every instant {bound-1s, -1ns, 0, +1ns, +1s} through ValidateLogConfig+ValidateChain (whole-second instants as real certificate and precertificate), NewTemporalLogClient+IndexByDate, TemporallyCompatible/Compatible (struct and JSON, synthetic and parsed certificates); " +
		"every list of 1..k shards over the alphabet through NewTemporalLogClient and, if constructed, IndexByDate at every instant; every reference-acceptable list end to end: TemporalLogClient.AddChain/AddPreChain over an http.RoundTripper into one real front end per shard, each built by ValidateLogConfig + ctfe.SetUpInstance from a LogConfig carrying that shard's not_after_start/not_after_limit (backend ref/reflog), plus a direct submission of every certificate to every shard. " +
		"distinct_nontrivial = distinct (component, window, instant) with the instant within 1 ns of a present bound + distinct shard lists that are acceptable or are refused although all their shards are well-formed and non-inverted + distinct end-to-end (list, instant, entry type) deliveries")
	r.Assume("the statement does not decide whether an empty window (start == limit) may be constructed: either outcome is accepted for shard lists containing one (counted in empty_shard_lists_*), but if constructed it must never be chosen; the server may refuse or accept an inverted window but must then admit nothing",
		"loglist3.TemporalInterval holds two plain time.Time values: 'both absent' is the nil interval, 'absent start' is the zero time.Time (what an omitted start_inclusive decodes to; it precedes every enumerated instant), 'absent limit with a present start' cannot be expressed and is not enumerated (loglist_windows_not_representable)",
		"loglist3 filters Operator.Logs only; Operator.TiledLogs are carried through unfiltered by the library and are not part of the oracle",
		"certificates with a sub-second NotAfter are encoded as GeneralizedTime with a fraction of a second (RFC 5280 forbids it; the repository's lenient parser accepts and keeps the fraction), so the server's admission and the client's AddChain routing are exercised with sub-second NotAfter values as well",
		"time.Unix / time.Time comparison of the Go standard library are trusted to realise the integer order on instants")

	spaces := []space{anchorSpace("A", anchorA, th), anchorSpace("B", anchorB, th)}
	if th {
		spaces = append(spaces, anchorSpace("C", anchorC, th))
	}
	spaces = append(spaces, protoSpace())
	narrowA := anchorSpace("A6", anchorA, false) // thorough: the 6-bound alphabet for 4-shard lists (its instants are a subset of A's)
	fx := buildFixtures(r, spaces)
	c := &checker{r: r, fx: fx, hc: &http.Client{Transport: noNet{}}}
	tmp, err := os.MkdirTemp("", "c18-")
	if err != nil {
		t.Fatal(err)
	}
	c.tmpDir = tmp
	c.rootsPEM = filepath.Join(tmp, "root.pem")
	if err := os.WriteFile(c.rootsPEM, pem.EncodeToMemory(&pem.Block{Type: "CERTIFICATE", Bytes: fx.root.DER}), 0o600); err != nil {
		t.Fatal(err)
	}

	// phase 1: single windows
	for _, sp := range spaces {
		sp := sp
		nb := len(sp.bounds)
		r.Add("windows", int64(nb*nb))
		enum.Product([]int{nb, nb}, nil, func(idx []int) {
			w := window{sp.bounds[idx[0]], sp.bounds[idx[1]]}
			for _, viaFile := range []bool{false, true} {
				if pan, msg, stack := enum.Catch(func() { c.checkWindow(sp, w, viaFile) }); pan {
					r.Violation("harness-panic", msg+"\n"+stack, caseDesc{Phase: "window", Space: sp.name, Shards: descW(w)})
				}
			}
		})
		if pan, msg, stack := enum.Catch(func() { c.checkLogList(sp) }); pan {
			r.Violation("harness-panic", msg+"\n"+stack, caseDesc{Phase: "loglist", Space: sp.name})
		}
	}
	// phase 1b: windows placed around the wall clock (shards that are current, about to end, just
	// begun): whatever the helper that picks a NotAfter for a configured log does with the time of
	// day, its pick lies inside the window
	{
		day := 24 * time.Hour
		offs := func(ds ...time.Duration) []*time.Duration {
			out := []*time.Duration{nil}
			for i := range ds {
				out = append(out, &ds[i])
			}
			return out
		}
		starts := offs(-400*day, -2*day, -time.Hour, -time.Second, time.Second, time.Hour, 2*day)
		limits := offs(-time.Hour, time.Second, time.Minute, time.Hour, day-time.Minute, day, day+time.Second, day+time.Hour, 2*day, 400*day)
		now := time.Now()
		for _, so := range starts {
			for _, lo := range limits {
				if so == nil && lo == nil || (so != nil && lo != nil && *lo <= *so) {
					continue
				}
				cfg := &ctfepb.LogConfig{}
				desc := "["
				var st, li time.Time
				if so != nil {
					st = now.Add(*so)
					cfg.NotAfterStart = timestamppb.New(st)
					desc += "now" + fmtOff(*so)
				}
				desc += ", "
				if lo != nil {
					li = now.Add(*lo)
					cfg.NotAfterLimit = timestamppb.New(li)
					desc += "now" + fmtOff(*lo)
				}
				desc += ")"
				r.Eval(1)
				r.Nontrivial("now-window " + desc)
				var na time.Time
				var nerr error
				if pan, msg, stack := enum.Catch(func() { na, nerr = integration.NotAfterForLog(cfg) }); pan {
					r.Violation("panic NotAfterForLog", msg+"\n"+stack, caseDesc{Phase: "window-around-now", Shards: []string{desc}})
				} else if nerr != nil || (so != nil && na.Before(st)) || (lo != nil && !na.Before(li)) {
					r.Violation("integration NotAfterForLog picks an instant outside the window (window placed around the wall clock)",
						fmt.Sprintf("NotAfterForLog(%s) at wall clock %s = now%s, err=%v", desc, now.UTC().Format(time.RFC3339), fmtOff(na.Sub(now)), nerr), caseDesc{Phase: "window-around-now", Shards: []string{desc}})
				}
			}
		}
	}
	r.Set("instants_per_space", func() map[string]int {
		m := map[string]int{}
		for _, sp := range spaces {
			m[sp.name] = len(sp.insts)
		}
		return m
	}())

	// phase 3 first (small, the most telling), then phase 2 (large)
	var e2e []listSpace
	for _, sp := range spaces {
		if sp.name == "P" {
			continue
		}
		maxK := 3
		if th {
			maxK = 4
		}
		for k := 1; k <= maxK; k++ {
			e2e = append(e2e, newListSpace(sp, k))
		}
	}
	for _, ls := range e2e {
		lists := acceptableLists(ls)
		r.Add("e2e_lists", int64(len(lists)))
		ls := ls
		done := enum.ParFor(len(lists), r.Expired, func(i int) {
			if pan, msg, stack := enum.Catch(func() { c.endToEnd(ls.sp, lists[i]) }); pan {
				r.Violation("harness-panic", msg+"\n"+stack, caseDesc{Phase: "e2e", Space: ls.sp.name, Shards: descW(lists[i]...)})
			}
		})
		if !done {
			r.Capped("deadline reached in the end-to-end phase")
		}
	}

	// phase 2: every shard list
	var lss []listSpace
	for _, sp := range spaces {
		maxK := 3
		if sp.name == "P" && !th {
			maxK = 2
		}
		for k := 1; k <= maxK; k++ {
			lss = append(lss, newListSpace(sp, k))
		}
	}
	if th {
		lss = append(lss, newListSpace(narrowA, 4))
	}
	for _, ls := range lss {
		c.runLists(ls)
	}
	c.samples()
	os.RemoveAll(tmp)
	r.Finish()
}

// ---------------------------------------------------------------------------
// helpers shared with e2e_test.go

func keyID(k *pki.Key) [32]byte { return sha256.Sum256(k.SPKI) }

type hit struct{ host, path string }

type router struct {
	mu   sync.Mutex
	rt   map[string]http.RoundTripper
	hits []hit
}

func (ro *router) RoundTrip(req *http.Request) (*http.Response, error) {
	ro.mu.Lock()
	ro.hits = append(ro.hits, hit{req.URL.Host, req.URL.Path})
	rt := ro.rt[req.URL.Host]
	ro.mu.Unlock()
	if rt == nil {
		return nil, fmt.Errorf("c18: no such host %q", req.URL.Host)
	}
	return rt.RoundTrip(req)
}

func (ro *router) take() []hit {
	ro.mu.Lock()
	defer ro.mu.Unlock()
	h := ro.hits
	ro.hits = nil
	return h
}

var _ = sort.Strings
var _ = context.Background
