//go:build verif

// Reference model for C18, written from the property statement and the
// protobuf Timestamp definition only (never from the code under test):
//
//	instant        := seconds*10^9 + nanos, 0 <= nanos < 10^9, compared as integers
//	inside(w, t)   := (w.start absent or w.start <= t) and (w.limit absent or t < w.limit)
//	a Timestamp is valid iff 0 <= nanos < 10^9 and 0001-01-01T00:00:00Z <= seconds <= 9999-12-31T23:59:59Z
//	a shard list is acceptable iff every bound is valid, no shard is inverted
//	(limit < start) and every shard after the first starts exactly where the
//	previous one ended (so: previous limit present, own start present, equal).
package c18

import (
	"fmt"
	"sort"
	"time"

	"google.golang.org/protobuf/types/known/timestamppb"
)

const nsPerSec = 1_000_000_000

// Range of google.protobuf.Timestamp.seconds.
const (
	minSec = -62135596800 // 0001-01-01T00:00:00Z
	maxSec = 253402300799 // 9999-12-31T23:59:59Z
)

// inst is an instant: sec*10^9+ns with 0 <= ns < 10^9.
type inst struct {
	sec int64
	ns  int32
}

func (a inst) cmp(b inst) int {
	switch {
	case a.sec < b.sec:
		return -1
	case a.sec > b.sec:
		return 1
	case a.ns < b.ns:
		return -1
	case a.ns > b.ns:
		return 1
	}
	return 0
}

func (a inst) plus(ds, dns int64) inst {
	s, n := a.sec+ds, int64(a.ns)+dns
	for n < 0 {
		n += nsPerSec
		s--
	}
	for n >= nsPerSec {
		n -= nsPerSec
		s++
	}
	return inst{s, int32(n)}
}

// absDiffLE reports |a-b| <= d nanoseconds (d < 2 s).
func (a inst) absDiffLE(b inst, dns int64) bool {
	lo, hi := b.plus(0, -dns), b.plus(0, dns)
	return a.cmp(lo) >= 0 && a.cmp(hi) <= 0
}

func (a inst) whole() bool    { return a.ns == 0 }
func (a inst) t() time.Time   { return time.Unix(a.sec, int64(a.ns)).UTC() }
func (a inst) String() string { return a.t().Format(time.RFC3339Nano) }

// bound is one optional window bound exactly as written in a configuration:
// the (seconds, nanos) pair of a protobuf Timestamp, or absent.
type bound struct {
	present bool
	sec     int64
	nanos   int32
	name    string
}

func absent() bound { return bound{name: "absent"} }

func at(i inst, name string) bound { return bound{present: true, sec: i.sec, nanos: i.ns, name: name} }

func (b bound) valid() bool {
	return !b.present || (b.nanos >= 0 && b.nanos < nsPerSec && b.sec >= minSec && b.sec <= maxSec)
}

func (b bound) at() inst { return inst{b.sec, b.nanos} }

func (b bound) pb() *timestamppb.Timestamp {
	if !b.present {
		return nil
	}
	return &timestamppb.Timestamp{Seconds: b.sec, Nanos: b.nanos}
}

func (b bound) String() string {
	if !b.present {
		return "absent"
	}
	if !b.valid() {
		return fmt.Sprintf("%s=(seconds:%d nanos:%d INVALID)", b.name, b.sec, b.nanos)
	}
	return fmt.Sprintf("%s=%s(seconds:%d nanos:%d)", b.name, b.at(), b.sec, b.nanos)
}

type window struct{ start, limit bound }

func (w window) valid() bool { return w.start.valid() && w.limit.valid() }

func (w window) inside(t inst) bool {
	return (!w.start.present || w.start.at().cmp(t) <= 0) && (!w.limit.present || t.cmp(w.limit.at()) < 0)
}

func (w window) both() bool     { return w.start.present && w.limit.present }
func (w window) inverted() bool { return w.both() && w.limit.at().cmp(w.start.at()) < 0 }
func (w window) empty() bool    { return w.both() && w.limit.at().cmp(w.start.at()) == 0 }
func (w window) String() string { return "[" + w.start.String() + ", " + w.limit.String() + ")" }
func (w window) key() string    { return w.start.name + "," + w.limit.name }

// near names the bound of w that decides the verdict around t, for coarse
// violation signatures.
func (w window) near(t inst) string {
	ns, nl := w.start.present && t.absDiffLE(w.start.at(), nsPerSec), w.limit.present && t.absDiffLE(w.limit.at(), nsPerSec)
	sub := func(b bound) string {
		if b.nanos != 0 {
			return " subsecond-bound"
		}
		return ""
	}
	switch {
	case w.empty() && ns:
		return "start==limit"
	case ns && nl:
		// the closer one
		ds, dl := w.start.at(), w.limit.at()
		if t.absDiffLE(ds, 1) && !t.absDiffLE(dl, 1) {
			return "start" + sub(w.start)
		}
		if t.absDiffLE(dl, 1) && !t.absDiffLE(ds, 1) {
			return "limit" + sub(w.limit)
		}
		return "start+limit"
	case ns:
		return "start" + sub(w.start)
	case nl:
		return "limit" + sub(w.limit)
	}
	return "far"
}

type verdict int

const (
	refuse verdict = iota
	accept
	dontcare
)

func (v verdict) String() string { return [...]string{"refuse", "accept", "either"}[v] }

// judgeList is the reference verdict on constructing a shard list, with the
// name of the first rule broken.
func judgeList(ws []window) (verdict, string) {
	if len(ws) == 0 {
		return refuse, "empty-list"
	}
	for _, w := range ws {
		if !w.valid() {
			return refuse, "invalid-timestamp"
		}
	}
	for _, w := range ws {
		if w.inverted() {
			return refuse, "inverted"
		}
	}
	for i := 1; i < len(ws); i++ {
		p, c := ws[i-1], ws[i]
		switch {
		case !p.limit.present:
			return refuse, "extends-unbounded-upper"
		case !c.start.present:
			return refuse, "extends-with-unbounded-lower"
		case c.start.at().cmp(p.limit.at()) > 0:
			return refuse, "gap"
		case c.start.at().cmp(p.limit.at()) < 0:
			return refuse, "overlap-or-reversed"
		}
	}
	for _, w := range ws {
		if w.empty() {
			// start == limit is an empty interval, neither inverted nor
			// non-contiguous: the statement does not decide whether it may be
			// constructed. If it is, it must never be chosen.
			return dontcare, "empty-shard"
		}
	}
	return accept, ""
}

// route is the reference shard choice: the indices of all shards containing t.
func route(ws []window, t inst) []int {
	var out []int
	for i, w := range ws {
		if w.inside(t) {
			out = append(out, i)
		}
	}
	return out
}

// span is the overall window of an acceptable list.
func span(ws []window) window { return window{ws[0].start, ws[len(ws)-1].limit} }

// instantsFor returns every valid present bound shifted by -1 s, -1 ns, 0, +1 ns, +1 s.
func instantsFor(bs []bound) []inst {
	seen := map[inst]bool{}
	var out []inst
	for _, b := range bs {
		if !b.present || !b.valid() {
			continue
		}
		for _, d := range [][2]int64{{-1, 0}, {0, -1}, {0, 0}, {0, 1}, {1, 0}} {
			i := b.at().plus(d[0], d[1])
			if !seen[i] {
				seen[i] = true
				out = append(out, i)
			}
		}
	}
	sort.Slice(out, func(i, j int) bool { return out[i].cmp(out[j]) < 0 })
	return out
}
