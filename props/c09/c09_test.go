// C09 — the TLS presentation codec is a bijection on every supported type shape.
//
// Engine B (bounded-exhaustive enumeration): every struct type of 1..N fields over
// a kind alphabet is materialised with reflect.StructOf, every value of the
// per-kind boundary alphabets is pushed through tls.Marshal / tls.Unmarshal and
// through the independent reference codec ref/tlsref, and every byte string of a
// mutation family (all proper prefixes, trailing bytes, every byte +-1, all short
// strings over {00,01,02,ff}) is decoded by both.
package c09

import (
	"bytes"
	"fmt"
	"reflect"
	"runtime"
	"strings"
	"sync"
	"testing"

	"verif/engine/enum"
	"verif/engine/rep"
	. "verif/ref/tlsref"

	"github.com/google/certificate-transparency-go/tls"
)

var bind = Binder{Uint24: reflect.TypeOf(tls.Uint24(0)), Enum: reflect.TypeOf(tls.Enum(0))}

type val struct {
	v     any
	valid bool
	big   bool
}

type kind struct {
	s    *Shape
	vals []val
	core bool // member of the reduced alphabet used for the widest structs
}

func pat(n int) []byte {
	b := make([]byte, n)
	for i := range b {
		b[i] = byte(i + 1)
	}
	return b
}

func patU(w int) uint64 {
	var x uint64
	for i := 1; i <= w; i++ {
		x = x<<8 | uint64(i)
	}
	return x
}

func maxU(w int) uint64 {
	if w >= 8 {
		return ^uint64(0)
	}
	return uint64(1)<<(8*uint(w)) - 1
}

func intKind(k Kind, w int, size int, tag string, core bool) kind {
	s := &Shape{Kind: k, Size: size, Tag: tag}
	vs := []val{{v: uint64(0), valid: true}, {v: patU(w), valid: true}, {v: maxU(w), valid: true}}
	if w < 8 {
		vs = append(vs, val{v: maxU(w) + 1}) // does not fit: must be refused when the Go type can hold it
	}
	return kind{s: s, vals: vs, core: core}
}

func bytesKind(min, max uint64, core bool, thorough bool) kind {
	s := &Shape{Kind: Bytes, Min: min, Max: max}
	lens := map[uint64]bool{min: true, min + 1: true}
	if max <= 300 {
		lens[max] = true
	} else {
		lens[256] = true
	}
	k := kind{s: s, core: core}
	for l := range lens {
		if l >= min && l <= max {
			k.vals = append(k.vals, val{v: pat(int(l)), valid: true})
		}
	}
	// big values: only used where they cannot multiply
	if max > 300 && max <= 70000 {
		k.vals = append(k.vals, val{v: pat(int(max)), valid: true, big: true})
		k.vals = append(k.vals, val{v: pat(int(max + 1)), big: true})
	}
	if max > 70000 {
		k.vals = append(k.vals, val{v: pat(65536), valid: true, big: true})
		if thorough {
			k.vals = append(k.vals, val{v: pat(int(max)), valid: true, big: true})
			k.vals = append(k.vals, val{v: pat(int(max + 1)), big: true})
		}
	}
	if max <= 300 {
		k.vals = append(k.vals, val{v: pat(int(max + 1))})
	}
	if min > 0 {
		k.vals = append(k.vals, val{v: pat(int(min - 1))})
	}
	// a nil slice is the empty vector: fine when the minimum is 0, refused otherwise
	k.vals = append(k.vals, val{v: []byte(nil), valid: min == 0})
	sortVals(k.vals)
	return k
}

func sortVals(v []val) {
	// deterministic order: valid first, then by encoded size
	sz := func(x val) int {
		if b, ok := x.v.([]byte); ok {
			return len(b)
		}
		return 0
	}
	for i := 1; i < len(v); i++ {
		for j := i; j > 0; j-- {
			a, b := v[j-1], v[j]
			if (!a.valid && b.valid) || (a.valid == b.valid && sz(a) > sz(b)) {
				v[j-1], v[j] = b, a
			}
		}
	}
}

func list(xs ...any) []any { return xs }

func kinds(thorough bool) []kind {
	var ks []kind
	ks = append(ks, intKind(U8, 1, 0, "", true), intKind(U16, 2, 0, "", false), intKind(U24, 3, 0, "", true),
		intKind(U32, 4, 0, "", false), intKind(U64, 8, 0, "", true))
	for w := 1; w <= 8; w++ {
		ks = append(ks, intKind(Enum, w, w, fmt.Sprintf("size:%d", w), w == 2 || w == 8))
	}
	for w := 1; w <= 8; w++ {
		ks = append(ks, intKind(Enum, w, w, fmt.Sprintf("maxval:%d", maxU(w)), false))
		if w < 8 {
			ks = append(ks, intKind(Enum, w+1, w+1, fmt.Sprintf("maxval:%d", maxU(w)+1), w == 1))
		}
	}
	for _, n := range []int{0, 1, 3} {
		ks = append(ks, kind{s: &Shape{Kind: Array, Size: n}, core: n == 3,
			vals: []val{{v: make([]byte, n), valid: true}, {v: pat(n), valid: true}}})
	}
	ks = append(ks, bytesKind(0, 1, false, thorough), bytesKind(0, 255, true, thorough), bytesKind(1, 256, true, thorough),
		bytesKind(0, 65535, false, thorough), bytesKind(2, 1<<24-1, false, thorough))
	u16 := &Shape{Kind: U16}
	u24 := &Shape{Kind: U24}
	ks = append(ks, kind{s: &Shape{Kind: Vec, Elem: u16, Min: 0, Max: 6},
		vals: []val{{v: list(), valid: true}, {v: []any(nil), valid: true}, {v: list(uint64(0x0102)), valid: true}, {v: list(uint64(1), uint64(0xffff), uint64(3)), valid: true},
			{v: list(uint64(1), uint64(2), uint64(3), uint64(4))}}})
	ks = append(ks, kind{s: &Shape{Kind: Vec, Elem: u16, Min: 2, Max: 256},
		vals: []val{{v: list(uint64(7)), valid: true}, {v: list(uint64(7), uint64(8)), valid: true}, {v: list()}, {v: []any(nil)}}})
	// vectors with many elements (a count is not a nesting depth, and 63 / 64 / 65, 255 / 256 / 257 elements are nothing special)
	many := func(n int, f func(i int) any) []any {
		l := make([]any, n)
		for i := range l {
			l[i] = f(i)
		}
		return l
	}
	u16v := func(i int) any { return uint64(i*257 + 1) }
	ks = append(ks, kind{s: &Shape{Kind: Vec, Elem: u16, Min: 0, Max: 65535},
		vals: []val{{v: many(63, u16v), valid: true}, {v: many(64, u16v), valid: true}, {v: many(65, u16v), valid: true}, {v: many(256, u16v), valid: true}, {v: many(1000, u16v), valid: true}}})
	esm := &Shape{Kind: Struct, Fields: []Field{{Name: "A", S: &Shape{Kind: U8}}, {Name: "B", S: &Shape{Kind: Bytes, Min: 0, Max: 3}}}}
	esv := func(i int) any { return list(uint64(i%251), []byte{byte(i), byte(i >> 8)}[:i%3]) }
	ks = append(ks, kind{s: &Shape{Kind: Vec, Elem: esm, Min: 0, Max: 65535},
		vals: []val{{v: many(64, esv), valid: true}, {v: many(65, esv), valid: true}, {v: many(257, esv), valid: true}}})
	ks = append(ks, kind{s: &Shape{Kind: Vec, Elem: u24, Min: 0, Max: 9}, core: true,
		vals: []val{{v: list(), valid: true}, {v: list(uint64(0x010203)), valid: true}, {v: list(uint64(0x010203), uint64(0xa0b0c0), uint64(0xffffff)), valid: true},
			{v: list(uint64(1), uint64(2), uint64(3), uint64(4))}, {v: list(uint64(0x1000000))}}})
	es := &Shape{Kind: Struct, Fields: []Field{{Name: "A", S: &Shape{Kind: U8}}, {Name: "B", S: &Shape{Kind: Bytes, Min: 0, Max: 3}}}}
	ks = append(ks, kind{s: &Shape{Kind: Vec, Elem: es, Min: 0, Max: 255}, core: true,
		vals: []val{{v: list(), valid: true}, {v: list(list(uint64(9), []byte{})), valid: true},
			{v: list(list(uint64(9), []byte{1, 2, 3}), list(uint64(0xff), []byte{4})), valid: true},
			{v: list(list(uint64(9), []byte{1, 2, 3, 4}))}}})
	es2 := &Shape{Kind: Struct, Fields: []Field{{Name: "A", S: u24}, {Name: "B", S: u16}}}
	ks = append(ks, kind{s: &Shape{Kind: Vec, Elem: es2, Min: 0, Max: 300},
		vals: []val{{v: list(), valid: true}, {v: list(list(uint64(0x010203), uint64(0x0405)), list(uint64(0x0a0b0c), uint64(0x0d0e))), valid: true}}})
	// vector of structs with a select(): consecutive elements choosing the same arm, and arms
	// holding vectors whose later elements are shorter than earlier ones
	vs := &Shape{Kind: Struct, Fields: []Field{{Name: "S", S: &Shape{Kind: Enum, Size: 1}},
		{Name: "A", S: u16, Selector: "S", Val: 1}, {Name: "B", S: &Shape{Kind: Bytes, Min: 0, Max: 255}, Selector: "S", Val: 2}}}
	el := func(sel uint64, v any) any {
		if sel == 1 {
			return list(sel, v, nil)
		}
		return list(sel, nil, v)
	}
	ks = append(ks, kind{s: &Shape{Kind: Vec, Elem: vs, Min: 0, Max: 1000}, core: true,
		vals: []val{{v: list(), valid: true}, {v: list(el(1, uint64(0x0102))), valid: true},
			{v: list(el(1, uint64(0x0102)), el(1, uint64(0x0304))), valid: true},
			{v: list(el(2, pat(5)), el(2, pat(2)), el(1, uint64(7)), el(2, []byte{})), valid: true},
			{v: list(el(1, uint64(1)), el(2, pat(3)), el(1, uint64(2))), valid: true}}})
	bs := &Shape{Kind: Struct, Fields: []Field{{Name: "V", S: &Shape{Kind: Bytes, Min: 0, Max: 65535}}}}
	ks = append(ks, kind{s: &Shape{Kind: Vec, Elem: bs, Min: 0, Max: 1<<24 - 1},
		vals: []val{{v: list(), valid: true}, {v: list(list(pat(300)), list(pat(20))), valid: true},
			{v: list(list(pat(3)), list(pat(2)), list(pat(1)), list([]byte{})), valid: true},
			// elements that make the output cross 1 KiB and every doubling up to 128 KiB while the
			// vector is still open (encoders that back-patch a length prefix into a growing buffer)
			{v: list(list(pat(500)), list(pat(500)), list(pat(500))), valid: true, big: true},
			{v: list(list(pat(40)), list(pat(700)), list(pat(700)), list(pat(2100)), list(pat(4200)), list(pat(8400)), list(pat(17000)), list(pat(34000)), list(pat(65535))), valid: true, big: true}}})
	// vector of structs holding a vector of structs: two open length prefixes while the output grows
	bss := &Shape{Kind: Struct, Fields: []Field{{Name: "W", S: &Shape{Kind: Vec, Elem: bs, Min: 0, Max: 1<<24 - 1}}}}
	ks = append(ks, kind{s: &Shape{Kind: Vec, Elem: bss, Min: 0, Max: 1<<24 - 1},
		vals: []val{{v: list(), valid: true}, {v: list(list(list(list(pat(2)), list(pat(1)))), list(list())), valid: true},
			{v: list(list(list(list(pat(300)), list(pat(300)))), list(list(list(pat(300)), list(pat(300)), list(pat(1200)), list(pat(2500))))), valid: true, big: true}}})
	ns := &Shape{Kind: Struct, Fields: []Field{{Name: "A", S: u16}, {Name: "B", S: &Shape{Kind: Bytes, Min: 0, Max: 255}}}}
	ks = append(ks, kind{s: ns, core: true, vals: []val{{v: list(uint64(0x0102), []byte{}), valid: true}, {v: list(uint64(0xffff), pat(5)), valid: true}, {v: list(uint64(1), pat(256))}}})
	ns2 := &Shape{Kind: Struct, Fields: []Field{{Name: "A", S: u24}}}
	ks = append(ks, kind{s: ns2, vals: []val{{v: list(uint64(0)), valid: true}, {v: list(uint64(0x010203)), valid: true}}})
	return ks
}

// typ is one generated struct type with its value set.
type typ struct {
	s    *Shape
	vals []val
}

func fname(i int) string { return string(rune('A' + i)) }

// structOf builds the struct of the given kinds; values = product of valid
// values (big ones only when allowBig) + every single invalid value.
func structOf(ks []kind, allowBig bool) typ {
	s := &Shape{Kind: Struct}
	for i, k := range ks {
		s.Fields = append(s.Fields, Field{Name: fname(i), S: k.s})
	}
	t := typ{s: s}
	var validSets [][]val
	for _, k := range ks {
		var vs []val
		for _, v := range k.vals {
			if v.valid && (allowBig || !v.big) {
				vs = append(vs, v)
			}
		}
		validSets = append(validSets, vs)
	}
	dims := make([]int, len(ks))
	for i := range ks {
		dims[i] = len(validSets[i])
	}
	n := enum.Size(dims)
	for i := 0; i < n; i++ {
		idx := enum.Decode(i, dims, nil)
		l := make([]any, len(ks))
		for j := range ks {
			l[j] = validSets[j][idx[j]].v
		}
		t.vals = append(t.vals, val{v: l, valid: true})
	}
	for j, k := range ks {
		for _, v := range k.vals {
			if v.valid || (v.big && !allowBig) {
				continue
			}
			l := make([]any, len(ks))
			for m := range ks {
				l[m] = validSets[m][0].v
			}
			l[j] = v.v
			t.vals = append(t.vals, val{v: l})
		}
	}
	return t
}

// variantOf builds a struct with a selector enum of width selW at position
// selPos, two arms (vals 1 and 2) at positions a1 < a2 (both after selPos) and
// the other kinds in the remaining positions.
func variantOf(selW int, arm1, arm2 kind, others []kind, selPos, a1, a2 int) typ {
	return variantOfVals(selW, 1, 2, arm1, arm2, others, selPos, a1, a2)
}

// variantOfVals: the same with the two arms selected by the values v1 and v2 of the selector.
func variantOfVals(selW int, v1, v2 uint64, arm1, arm2 kind, others []kind, selPos, a1, a2 int) typ {
	n := 3 + len(others)
	s := &Shape{Kind: Struct, Fields: make([]Field, n)}
	selName := fname(selPos)
	oi := 0
	type slot struct {
		k   kind
		arm int
	}
	slots := make([]slot, n)
	for i := 0; i < n; i++ {
		switch i {
		case selPos:
			s.Fields[i] = Field{Name: fname(i), S: &Shape{Kind: Enum, Size: selW}}
			slots[i].arm = -1
		case a1:
			s.Fields[i] = Field{Name: fname(i), S: arm1.s, Selector: selName, Val: v1}
			slots[i] = slot{arm1, 1}
		case a2:
			s.Fields[i] = Field{Name: fname(i), S: arm2.s, Selector: selName, Val: v2}
			slots[i] = slot{arm2, 2}
		default:
			s.Fields[i] = Field{Name: fname(i), S: others[oi].s}
			slots[i] = slot{others[oi], 0}
			oi++
		}
	}
	t := typ{s: s}
	first := func(k kind) any {
		for _, v := range k.vals {
			if v.valid && !v.big {
				return v.v
			}
		}
		return nil
	}
	for ci, choice := range []uint64{v1, v2} {
		// all valid small values of the chosen arm x all of the others' first two values
		var armK kind
		if ci == 0 {
			armK = arm1
		} else {
			armK = arm2
		}
		for _, av := range armK.vals {
			if av.big {
				continue
			}
			base := make([]any, n)
			for i := range slots {
				switch {
				case slots[i].arm == -1:
					base[i] = choice
				case slots[i].arm == ci+1:
					base[i] = av.v
				case slots[i].arm == 0:
					base[i] = first(slots[i].k)
				}
			}
			t.vals = append(t.vals, val{v: base, valid: av.valid})
			if av.valid {
				for i := range slots {
					if slots[i].arm != 0 {
						continue
					}
					for _, ov := range slots[i].k.vals[1:] {
						if ov.big {
							continue
						}
						l := append([]any{}, base...)
						l[i] = ov.v
						t.vals = append(t.vals, val{v: l, valid: ov.valid})
					}
				}
			}
		}
	}
	// ill-formed variant values: unknown selector, chosen arm nil, unchosen arm set
	mk := func(sel uint64, v1, v2 any) []any {
		l := make([]any, n)
		for i := range slots {
			switch slots[i].arm {
			case -1:
				l[i] = sel
			case 1:
				l[i] = v1
			case 2:
				l[i] = v2
			default:
				l[i] = first(slots[i].k)
			}
		}
		return l
	}
	for _, u := range []uint64{0, v1 - 1, v1 + 1, v2 + 1, v2 & 0xffffffff, v1 & 0xffff, maxU(selW)} { // values of the selector that name no arm
		if u != v1 && u != v2 && u <= maxU(selW) {
			t.vals = append(t.vals, val{v: mk(u, nil, nil)}, val{v: mk(u, first(arm1), nil)})
		}
	}
	t.vals = append(t.vals, val{v: mk(v1, nil, nil)},
		val{v: mk(v1, nil, first(arm2))}, val{v: mk(v1, first(arm1), first(arm2))}, val{v: mk(v2, first(arm1), nil)})
	return t
}

// twoSelectorTypes: structs with two selectors whose variant fields are interleaved in every
// order that keeps each variant after its own selector (80 layouts).
func twoSelectorTypes() []typ {
	u8, u16, u24 := &Shape{Kind: U8}, &Shape{Kind: U16}, &Shape{Kind: U24}
	by := &Shape{Kind: Bytes, Min: 0, Max: 255}
	// items: 0 = S, 1 = T, 2,3 = arms of S (values 1,2), 4,5 = arms of T (values 1,2)
	shapes := []*Shape{nil, nil, u16, by, u8, u24}
	sample := []any{nil, nil, uint64(0x0102), []byte{9, 8, 7}, uint64(0x7f), uint64(0x0a0b0c)}
	var out []typ
	perm := []int{0, 1, 2, 3, 4, 5}
	var rec func(k int)
	rec = func(k int) {
		if k == len(perm) {
			pos := make([]int, 6)
			for i, it := range perm {
				pos[it] = i
			}
			if pos[2] < pos[0] || pos[3] < pos[0] || pos[4] < pos[1] || pos[5] < pos[1] {
				return
			}
			s := &Shape{Kind: Struct, Fields: make([]Field, 6)}
			selName := map[int]string{}
			for i, it := range perm {
				if it == 0 || it == 1 {
					selName[it] = fname(i)
				}
			}
			for i, it := range perm {
				switch it {
				case 0, 1:
					s.Fields[i] = Field{Name: fname(i), S: &Shape{Kind: Enum, Size: 1}}
				case 2, 3:
					s.Fields[i] = Field{Name: fname(i), S: shapes[it], Selector: selName[0], Val: uint64(it - 1)}
				default:
					s.Fields[i] = Field{Name: fname(i), S: shapes[it], Selector: selName[1], Val: uint64(it - 3)}
				}
			}
			t := typ{s: s}
			for _, sv := range []uint64{1, 2} {
				for _, tv := range []uint64{1, 2} {
					l := make([]any, 6)
					for i, it := range perm {
						switch {
						case it == 0:
							l[i] = sv
						case it == 1:
							l[i] = tv
						case it == 1+int(sv), it == 3+int(tv):
							l[i] = sample[it]
						}
					}
					t.vals = append(t.vals, val{v: l, valid: true})
				}
			}
			// ill-formed: an unknown value of the second selector; an arm of the other value set
			bad := make([]any, 6)
			bad2 := make([]any, 6)
			for i, it := range perm {
				switch it {
				case 0:
					bad[i], bad2[i] = uint64(1), uint64(1)
				case 1:
					bad[i], bad2[i] = uint64(3), uint64(1)
				case 2:
					bad[i], bad2[i] = sample[2], sample[2]
				case 4:
					bad2[i] = sample[4]
				case 5:
					bad2[i] = sample[5]
				}
			}
			t.vals = append(t.vals, val{v: bad}, val{v: bad2})
			out = append(out, t)
			return
		}
		for i := k; i < len(perm); i++ {
			perm[k], perm[i] = perm[i], perm[k]
			rec(k + 1)
			perm[k], perm[i] = perm[i], perm[k]
		}
	}
	rec(0)
	return out
}

func genTypes(thorough bool) []typ {
	ks := kinds(thorough)
	var core []kind
	for _, k := range ks {
		if k.core {
			core = append(core, k)
		}
	}
	var ts []typ
	for _, a := range ks {
		ts = append(ts, structOf([]kind{a}, true))
	}
	for _, a := range ks {
		for _, b := range ks {
			ts = append(ts, structOf([]kind{a, b}, false))
		}
	}
	wide := core
	if thorough {
		wide = ks
	}
	for _, a := range wide {
		for _, b := range wide {
			for _, c := range wide {
				ts = append(ts, structOf([]kind{a, b, c}, false))
			}
		}
	}
	if thorough {
		for _, a := range core {
			for _, b := range core {
				for _, c := range core {
					for _, d := range core {
						ts = append(ts, structOf([]kind{a, b, c, d}, false))
					}
				}
			}
		}
	}
	// variants: selector + two arms at every later position, with 0 or 1 (thorough: 2) other fields
	arms := core
	if thorough {
		arms = ks
	}
	for _, selW := range []int{1, 2} {
		for _, a1 := range arms {
			for _, a2 := range arms {
				ts = append(ts, variantOf(selW, a1, a2, nil, 0, 1, 2))
				if selW == 2 && !thorough {
					continue
				}
				for _, x := range core {
					for sel := 0; sel < 4; sel++ {
						for p1 := sel + 1; p1 < 4; p1++ {
							for p2 := p1 + 1; p2 < 4; p2++ {
								ts = append(ts, variantOf(selW, a1, a2, []kind{x}, sel, p1, p2))
							}
						}
					}
				}
			}
		}
	}
	// selectors of every width with arms named by values at the width's boundaries and around 2^8, 2^16, 2^31, 2^32
	u8, op := ks[0], ks[0]
	for _, k := range ks {
		if k.s.Kind == Bytes && k.s.Min == 0 && k.s.Max == 255 {
			op = k
		}
	}
	for _, selW := range []int{1, 2, 3, 4, 5, 6, 7, 8} {
		m := maxU(selW)
		pairs := [][2]uint64{{m - 1, m}, {0, m}}
		for _, b := range []uint64{1 << 8, 1 << 16, 1 << 31, 1 << 32, 1 << 63} {
			if b <= m && b-1 != m {
				pairs = append(pairs, [2]uint64{b - 1, b})
				if b+1 <= m {
					pairs = append(pairs, [2]uint64{b, b + 1})
				}
			}
		}
		for _, pr := range pairs {
			ts = append(ts, variantOfVals(selW, pr[0], pr[1], u8, op, nil, 0, 1, 2), variantOfVals(selW, pr[0], pr[1], op, u8, []kind{u8}, 1, 2, 3))
		}
	}
	ts = append(ts, twoSelectorTypes()...)
	return ts
}

// ----------------------------------------------------------------------------

type caseDesc struct {
	Type   string `json:"type"`
	GoType string `json:"go_type,omitempty"`
	Params string `json:"params,omitempty"`
	Value  string `json:"value,omitempty"`
	Input  string `json:"input_hex,omitempty"`
	Lib    string `json:"library"`
	Ref    string `json:"reference"`
}

func mutations(encd []byte) [][]byte {
	var out [][]byte
	n := len(encd)
	add := func(b []byte) { out = append(out, b) }
	if n <= 48 {
		for i := 0; i < n; i++ {
			add(encd[:i])
		}
	} else {
		for i := 0; i <= 24; i++ {
			add(encd[:i])
		}
		for i := n - 3; i < n; i++ {
			add(encd[:i])
		}
	}
	add(append(append([]byte{}, encd...), 0x00))
	add(append(append([]byte{}, encd...), 0xff))
	lim := n
	if lim > 24 {
		lim = 24
	}
	for i := 0; i < lim; i++ {
		for _, d := range []byte{1, 0xff} {
			m := append([]byte{}, encd...)
			m[i] += d
			add(m)
		}
	}
	return out
}

var shortStrings = func() [][]byte {
	al := []byte{0, 1, 2, 0xff}
	out := [][]byte{{}}
	for l := 1; l <= 3; l++ {
		idx := make([]int, l)
		for {
			b := make([]byte, l)
			for i := range b {
				b[i] = al[idx[i]]
			}
			out = append(out, b)
			k := l - 1
			for k >= 0 {
				idx[k]++
				if idx[k] < len(al) {
					break
				}
				idx[k] = 0
				k--
			}
			if k < 0 {
				break
			}
		}
	}
	return out
}()

type checker struct {
	r     *rep.R
	dirty sync.Map // shape string -> []byte: a valid encoding with every variable-size part populated
}

// dirtyFor returns a fresh destination pre-populated with a "rich" value of the type
// (the longest valid encoding seen for it), or nil if none is known yet.
func (c *checker) dirtyFor(top *Shape, gt reflect.Type, params string) *reflect.Value {
	v, ok := c.dirty.Load(top.String() + "|" + params)
	if !ok {
		return nil
	}
	ptr := reflect.New(gt)
	if _, err := tls.UnmarshalWithParams(v.([]byte), ptr.Interface(), params); err != nil {
		return nil
	}
	return &ptr
}

func (c *checker) noteRich(top *Shape, params string, enc []byte) {
	k := top.String() + "|" + params
	if old, ok := c.dirty.Load(k); !ok || len(old.([]byte)) < len(enc) && len(enc) < 4096 {
		c.dirty.Store(k, append([]byte{}, enc...))
	}
}

// sigFor builds a violation signature that names the failing direction and the
// kinds involved, so that one defect yields few signatures.
func sigFor(what string, s *Shape) string {
	ks := map[string]bool{}
	var walk func(s *Shape, depth int)
	walk = func(s *Shape, depth int) {
		switch s.Kind {
		case Struct:
			for _, f := range s.Fields {
				walk(f.S, depth+1)
			}
		case Vec:
			ks["vec"] = true
			walk(s.Elem, depth+1)
		default:
			x := s.String()
			if i := strings.IndexAny(x, "<[("); i > 0 {
				x = x[:i]
			}
			ks[x] = true
		}
	}
	walk(s, 0)
	if len(ks) == 1 && len(s.Fields) <= 1 {
		for k := range ks {
			return what + " kind=" + k
		}
	}
	return what
}

func (c *checker) decodeBoth(t *typ, gt reflect.Type, params string, top *Shape, data []byte, origin string) {
	c.r.Eval(1)
	rv, rn, rerr := Decode(top, data)
	ptr := reflect.New(gt)
	var rest []byte
	var lerr error
	// the library decodes from a private buffer (with spare capacity) that the caller reuses afterwards
	buf := make([]byte, len(data), len(data)+16)
	copy(buf, data)
	pan, msg, stack := enum.Catch(func() { rest, lerr = tls.UnmarshalWithParams(buf, ptr.Interface(), params) })
	cd := func(lib, ref string) caseDesc {
		return caseDesc{Type: top.String(), Params: params, Input: rep.Hex(data), Lib: lib, Ref: ref, Value: origin}
	}
	if pan {
		c.r.Violation(sigFor("unmarshal-panic", top), "tls.Unmarshal panicked: "+msg+"\n"+stack, cd("panic: "+msg, fmt.Sprint(rerr)))
		return
	}
	if (rerr == nil) != (lerr == nil) {
		c.r.Violation(sigFor(fmt.Sprintf("unmarshal-accept-mismatch lib_accepts=%v ref_accepts=%v", lerr == nil, rerr == nil), top),
			fmt.Sprintf("type %s input %s: library err=%v, reference err=%v", top, rep.Hex(data), lerr, rerr), cd(fmt.Sprint(lerr), fmt.Sprint(rerr)))
		return
	}
	if rerr != nil {
		return
	}
	c.r.Nontrivial(top.String() + "|" + string(data))
	lv := bind.FromGo(top, ptr.Elem())
	if !Equal(lv, rv) {
		c.r.Violation(sigFor("unmarshal-value-mismatch", top),
			fmt.Sprintf("type %s input %s: library decoded %s, reference %s", top, rep.Hex(data), Show(lv), Show(rv)), cd(Show(lv), Show(rv)))
		return
	}
	if len(rest) != len(data)-rn || !bytes.Equal(rest, data[rn:]) {
		c.r.Violation(sigFor("unmarshal-rest-mismatch", top),
			fmt.Sprintf("type %s input %s: library left %d bytes, reference %d", top, rep.Hex(data), len(rest), len(data)-rn), cd(rep.Hex(rest), rep.Hex(data[rn:])))
		return
	}
	// the input buffer belongs to the caller: overwriting it (and the spare capacity behind it) after
	// Unmarshal has returned must not change the decoded value
	for i := range buf {
		buf[i] ^= 0xff
	}
	buf = append(buf, 0xaa, 0xbb, 0xcc, 0xdd)
	if lv2 := bind.FromGo(top, ptr.Elem()); !Equal(lv2, rv) {
		c.r.Violation(sigFor("decoded-value-aliases-the-input-buffer", top),
			fmt.Sprintf("type %s input %s: after the caller overwrote its input buffer the decoded value reads %s, it was %s", top, rep.Hex(data), Show(lv2), Show(rv)), cd(Show(lv2), Show(rv)))
		return
	}
	// decoding must not depend on what the destination held before: decode the same input
	// into a destination pre-populated by decoding another valid encoding of the type
	if dirty := c.dirtyFor(top, gt, params); dirty != nil {
		var rest2 []byte
		var err2 error
		pan, msg, stack = enum.Catch(func() { rest2, err2 = tls.UnmarshalWithParams(data, dirty.Interface(), params) })
		if pan {
			c.r.Violation(sigFor("unmarshal-panic-on-reused-destination", top), msg+"\n"+stack, cd("panic: "+msg, ""))
			return
		}
		if err2 != nil || !Equal(bind.FromGo(top, dirty.Elem()), rv) || len(rest2) != len(data)-rn {
			c.r.Violation(sigFor("unmarshal-depends-on-destination-contents", top),
				fmt.Sprintf("type %s input %s: decoding into a destination that already held another value gives %s (err=%v), into a fresh one %s", top, rep.Hex(data), Show(bind.FromGo(top, dirty.Elem())), err2, Show(rv)), cd(Show(bind.FromGo(top, dirty.Elem())), Show(rv)))
			return
		}
	}
	// re-encoding what was decoded must reproduce the consumed bytes
	var re []byte
	var merr error
	pan, msg, stack = enum.Catch(func() { re, merr = tls.MarshalWithParams(ptr.Elem().Interface(), params) })
	if pan {
		c.r.Violation(sigFor("marshal-panic", top), "tls.Marshal panicked on a decoded value: "+msg+"\n"+stack, cd("panic: "+msg, ""))
		return
	}
	if merr != nil || !bytes.Equal(re, data[:rn]) {
		c.r.Violation(sigFor("reencode-mismatch", top),
			fmt.Sprintf("type %s input %s decodes but re-encodes to %s (err=%v)", top, rep.Hex(data[:rn]), rep.Hex(re), merr), cd(rep.Hex(re), rep.Hex(data[:rn])))
	}
}

func (c *checker) encodeBoth(gt reflect.Type, params string, top *Shape, v val) (encd []byte, ok bool) {
	c.r.Eval(1)
	gv := reflect.New(gt).Elem()
	if !bind.ToGo(top, v.v, gv) {
		return nil, false // the Go type cannot even hold this value
	}
	want, rerr := Encode(top, v.v)
	if (rerr == nil) != v.valid {
		panic(fmt.Sprintf("harness bug: reference disagrees with alphabet label: %s %s valid=%v err=%v", top, Show(v.v), v.valid, rerr))
	}
	var got []byte
	var lerr error
	pan, msg, stack := enum.Catch(func() { got, lerr = tls.MarshalWithParams(gv.Interface(), params) })
	cd := caseDesc{Type: top.String(), Params: params, Value: Show(v.v), Lib: fmt.Sprintf("%s err=%v", rep.Hex(got), lerr), Ref: fmt.Sprintf("%s err=%v", rep.Hex(want), rerr)}
	if pan {
		c.r.Violation(sigFor("marshal-panic", top), "tls.Marshal panicked: "+msg+"\n"+stack, cd)
		return nil, false
	}
	if (rerr == nil) != (lerr == nil) {
		c.r.Violation(sigFor(fmt.Sprintf("marshal-accept-mismatch lib_accepts=%v ref_accepts=%v", lerr == nil, rerr == nil), top),
			fmt.Sprintf("type %s value %s: library err=%v, reference err=%v", top, Show(v.v), lerr, rerr), cd)
		return nil, false
	}
	if rerr != nil {
		return nil, false
	}
	if !bytes.Equal(got, want) {
		c.r.Violation(sigFor("marshal-bytes-mismatch", top),
			fmt.Sprintf("type %s value %s: library %s, reference %s", top, Show(v.v), rep.Hex(got), rep.Hex(want)), cd)
		return nil, false
	}
	return want, true
}

func (c *checker) runType(t *typ) {
	gt, _ := bind.GoType(t.s)
	for _, v := range t.vals {
		if v.valid {
			if e, err := Encode(t.s, v.v); err == nil {
				c.noteRich(t.s, "", e)
			}
		}
	}
	for _, v := range t.vals {
		encd, ok := c.encodeBoth(gt, "", t.s, v)
		if !ok {
			continue
		}
		c.decodeBoth(t, gt, "", t.s, encd, Show(v.v))
		for _, m := range mutations(encd) {
			c.decodeBoth(t, gt, "", t.s, m, "mutation of "+Show(v.v))
		}
		if c.r.WantSample() && len(encd) < 40 {
			c.r.Sample(map[string]any{"type": t.s.String(), "value": Show(v.v), "encoding": rep.Hex(encd), "mutated_inputs_decoded": len(mutations(encd))})
		}
	}
	for _, b := range shortStrings {
		c.decodeBoth(t, gt, "", t.s, b, "short string")
	}
}

// runTop exercises one kind as a top-level value with parameters.
func (c *checker) runTop(k kind) {
	gt, params := bind.GoType(k.s)
	for _, v := range k.vals {
		if v.valid {
			if e, err := Encode(k.s, v.v); err == nil {
				c.noteRich(k.s, params, e)
			}
		}
	}
	for _, v := range k.vals {
		encd, ok := c.encodeBoth(gt, params, k.s, v)
		if !ok {
			continue
		}
		c.decodeBoth(nil, gt, params, k.s, encd, Show(v.v))
		for _, m := range mutations(encd) {
			c.decodeBoth(nil, gt, params, k.s, m, "mutation of "+Show(v.v))
		}
	}
	for _, b := range shortStrings {
		c.decodeBoth(nil, gt, params, k.s, b, "short string")
	}
}

// bombs: a length prefix announcing far more than is present must fail without
// allocating memory proportional to the announced length. Sequential phase.
func (c *checker) bombs(ks []kind) {
	for _, k := range ks {
		if k.s.Kind != Bytes && k.s.Kind != Vec {
			continue
		}
		w := PrefixWidth(k.s.Max)
		for _, tail := range []int{0, 10} {
			data := make([]byte, w+tail)
			m := k.s.Max
			for i := w - 1; i >= 0; i-- {
				data[i] = byte(m)
				m >>= 8
			}
			for _, wrap := range []bool{false, true} {
				s := k.s
				if wrap {
					s = &Shape{Kind: Struct, Fields: []Field{{Name: "A", S: &Shape{Kind: U8}}, {Name: "B", S: k.s}}}
					data = append([]byte{7}, data...)
				}
				gt, params := bind.GoType(s)
				ptr := reflect.New(gt)
				var ms0, ms1 runtime.MemStats
				runtime.ReadMemStats(&ms0)
				var err error
				pan, msg, _ := enum.Catch(func() { _, err = tls.UnmarshalWithParams(data, ptr.Interface(), params) })
				runtime.ReadMemStats(&ms1)
				c.r.Eval(1)
				c.r.Add("length_bombs", 1)
				delta := ms1.TotalAlloc - ms0.TotalAlloc
				if pan {
					c.r.Violation(sigFor("unmarshal-panic", s), "length bomb panics: "+msg, caseDesc{Type: s.String(), Input: rep.Hex(data)})
				} else if err == nil && uint64(len(data)-w) < k.s.Max {
					c.r.Violation(sigFor("length-bomb-accepted", s), fmt.Sprintf("type %s input %s accepted", s, rep.Hex(data)), caseDesc{Type: s.String(), Input: rep.Hex(data)})
				} else if delta > 256<<10 {
					c.r.Violation(sigFor("length-bomb-allocation", s), fmt.Sprintf("type %s: %d-byte input announcing %d bytes allocated %d bytes", s, len(data), k.s.Max, delta),
						caseDesc{Type: s.String(), Input: rep.Hex(data)})
				}
			}
		}
	}
}

func TestCheck(t *testing.T) {
	r := rep.New("C09", "exploration")
	r.Rule("every struct type of 1..3 (thorough: 4) fields over the kind alphabet {uint8..uint64, Uint24, Enum by size:1..8 and by maxval at every byte boundary, [0|1|3]byte, opaque<a..b> at 5 bound pairs, vectors of uint16/Uint24/struct, nested structs, select() with 2 arms at every later position} x every boundary value (product of valid values + each single unrepresentable value) x {encoding, every proper prefix, +1 trailing byte, every byte +-1, all strings <=3 bytes over {00,01,02,ff}}; compared with the independent codec ref/tlsref. distinct_nontrivial = distinct (type, byte string) pairs that the reference decodes successfully")
	r.Assume("zero-width vector elements (e.g. []struct{} or [][0]byte) and maxlen:0 are outside the documented grammar and not generated",
		"enum bound = declared width (maxval only selects the width), as documented")
	c := &checker{r: r}
	th := r.Thorough()
	ks := kinds(th)
	ts := genTypes(th)
	r.Set("types", len(ts)+len(ks))
	done := enum.ParFor(len(ts), r.Expired, func(i int) {
		pan, msg, stack := enum.Catch(func() { c.runType(&ts[i]) })
		if pan {
			r.Violation("harness-panic", msg+"\n"+stack, ts[i].s.String())
		}
	})
	if !done {
		r.Capped("deadline reached before all types were run")
	}
	enum.ParFor(len(ks), nil, func(i int) {
		pan, msg, stack := enum.Catch(func() { c.runTop(ks[i]) })
		if pan {
			r.Violation("harness-panic", msg+"\n"+stack, ks[i].s.String())
		}
	})
	c.bombs(ks)
	r.Finish()
}
