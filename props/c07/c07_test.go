//go:build verif

// C07 — get-entries serves the stored bytes for exactly the range it claims.
//
// Engine B (bounded-exhaustive enumeration). Histories are built by submitting
// certificates and precertificates made from explicit templates (ref/pki)
// through add-chain / add-pre-chain of a real front end (ref/fe) over the
// reference backend (ref/reflog) and integrating them. For every maximum batch
// size x alignment flag x tree size x (start, end) pair of a boundary alphabet
// (plus every pair of a small square, plus raw parameter strings) the request
// is served by the real get-entries handler; the GetLeavesByRangeRequest seen
// by the backend and the response are compared with an oracle whose arithmetic
// is done in math/big, and whose expected bytes are the backend's stored bytes
// and the template ground truth.
package c07

import (
	"bytes"
	"context"
	"encoding/base64"
	"encoding/json"
	"flag"
	"fmt"
	"github.com/google/certificate-transparency-go/x509"
	"io"
	"math/big"
	"net/http"
	"net/url"
	"regexp"
	"sort"
	"strings"
	"sync"
	"sync/atomic"
	"testing"
	"time"

	"verif/engine/enum"
	"verif/engine/rep"
	"verif/ref/fe"
	"verif/ref/reflog"

	ct "github.com/google/certificate-transparency-go"
	"github.com/google/certificate-transparency-go/trillian/ctfe"
	"github.com/google/trillian"
	"google.golang.org/protobuf/proto"
	"k8s.io/klog/v2"
)

type nolog struct{}

func (nolog) Printf(string, ...interface{}) {}

func silenceKlog() {
	fs := flag.NewFlagSet("klog", flag.ContinueOnError)
	klog.InitFlags(fs)
	fs.Set("logtostderr", "false")
	fs.Set("alsologtostderr", "false")
	fs.Set("stderrthreshold", "FATAL")
	klog.SetOutput(io.Discard)
}

var (
	bigMaxI64 = new(big.Int).SetInt64(1<<63 - 1)
	bigMinI64 = new(big.Int).SetInt64(-1 << 63)
	big0      = big.NewInt(0)
	big1      = big.NewInt(1)
)

func bi(x int64) *big.Int { return big.NewInt(x) }
func add(a *big.Int, x int64) *big.Int {
	return new(big.Int).Add(a, bi(x))
}
func minB(a, b *big.Int) *big.Int {
	if a.Cmp(b) <= 0 {
		return a
	}
	return b
}

// config is one (maximum batch size, alignment) setting of the process-global knobs.
type config struct {
	max   int64
	align bool
}

func (c config) String() string { return fmt.Sprintf("max=%d align=%v", c.max, c.align) }

func (c config) apply() {
	ctfe.MaxGetEntriesAllowed = c.max
	if err := flag.Set("align_getentries", fmt.Sprint(c.align)); err != nil {
		panic(err)
	}
}

// param is one query parameter as sent, with the reference reading of it.
type param struct {
	present bool
	raw     string
	val     *big.Int // nil: not a decimal integer
	lenient bool     // explicit plus sign: the statement does not say whether that is a decimal integer
}

var (
	reDecimal = regexp.MustCompile(`^-?[0-9]+$`)
	rePlus    = regexp.MustCompile(`^\+[0-9]+$`)
)

// classify is the reference reading of a raw parameter (RFC 6962 s4.6: "in decimal").
func classify(present bool, raw string) param {
	p := param{present: present, raw: raw}
	if !present {
		return p
	}
	switch {
	case reDecimal.MatchString(raw):
		p.val, _ = new(big.Int).SetString(raw, 10)
	case rePlus.MatchString(raw):
		p.val, _ = new(big.Int).SetString(raw[1:], 10)
		p.lenient = true
	}
	return p
}

func num(v *big.Int) param { return param{present: true, raw: v.String(), val: v} }

func (p param) show() string {
	if !p.present {
		return "<missing>"
	}
	return fmt.Sprintf("%q", p.raw)
}

type rcase struct {
	start, end param
	core       bool // member of the quick tier's request set (the client pass is always run on these)
}

func (c rcase) key() string { return c.start.show() + ".." + c.end.show() }

// verdict of the reference: valid iff both are decimal integers with 0 <= start <= end <= MaxInt64.
func (c rcase) verdict() (valid, lenient bool, class string) {
	for _, p := range []struct {
		n string
		p param
	}{{"start", c.start}, {"end", c.end}} {
		switch {
		case !p.p.present:
			return false, false, "missing-" + p.n
		case p.p.val == nil:
			return false, false, "malformed-" + p.n
		case p.p.val.Cmp(bigMaxI64) > 0 || p.p.val.Cmp(bigMinI64) < 0:
			return false, false, "outside-int64-" + p.n
		}
	}
	s, e := c.start.val, c.end.val
	switch {
	case s.Sign() < 0 && e.Sign() < 0:
		return false, false, "negative-both"
	case s.Sign() < 0:
		return false, false, "negative-start"
	case e.Sign() < 0:
		return false, false, "negative-end"
	case s.Cmp(e) > 0:
		return false, false, "start-after-end"
	}
	return true, c.start.lenient || c.end.lenient, "valid"
}

// overflowFeature names which intermediate of a naive int64 computation would overflow for this input.
func overflowFeature(cfg config, s, e *big.Int) string {
	span := add(new(big.Int).Sub(e, s), 1)
	switch {
	case span.Cmp(bigMaxI64) > 0:
		return "end-start+1 exceeds int64"
	case e.Cmp(bigMaxI64) == 0:
		return "end+1 exceeds int64"
	case add(s, cfg.max-1).Cmp(bigMaxI64) > 0:
		return "start+max-1 exceeds int64"
	}
	return "no int64 boundary involved"
}

// wantCount is the number of entries the backend must be asked for.
//
//	base = min(end-start+1, max)                          (statement)
//	alignment on and end-start+1 >= max:  max - start mod max   (documented coercion: cut at the next multiple of max)
func wantCount(cfg config, s, e *big.Int) (base, want *big.Int) {
	span := add(new(big.Int).Sub(e, s), 1)
	m := bi(cfg.max)
	base = minB(span, m)
	want = base
	if cfg.align && span.Cmp(m) >= 0 {
		want = new(big.Int).Sub(m, new(big.Int).Mod(s, m))
	}
	return
}

type caseDesc struct {
	Config   string `json:"config"`
	TreeSize int    `json:"tree_size"`
	Start    string `json:"start"`
	End      string `json:"end"`
	Via      string `json:"via"`
	Backend  string `json:"backend_calls_seen"`
	Library  string `json:"library"`
	Oracle   string `json:"oracle"`
	URL      string `json:"url,omitempty"`
}

type checker struct {
	r *rep.R
	// per configuration
	glbrSeen atomic.Int64 // GetLeavesByRange calls recorded by the per-worker recorders
	sfx      string       // signature suffix of the current sequential phase ("" in the parallel phases)
}

// viol records a violation; during the disconnecting-client pass the signature says so.
func (k *checker) viol(sig, desc string, c any) { k.r.Violation(sig+k.sfx, desc, c) }

func showCalls(cs []reflog.Call) string {
	var out []string
	for _, c := range cs {
		if q, ok := c.Req.(*trillian.GetLeavesByRangeRequest); ok {
			out = append(out, fmt.Sprintf("GetLeavesByRange{LogId:%d StartIndex:%d Count:%d}", q.LogId, q.StartIndex, q.Count))
		} else if q, ok := c.Req.(*trillian.GetEntryAndProofRequest); ok {
			out = append(out, fmt.Sprintf("GetEntryAndProof{LogId:%d LeafIndex:%d TreeSize:%d}", q.LogId, q.LeafIndex, q.TreeSize))
		} else {
			out = append(out, c.Method)
		}
	}
	if len(out) == 0 {
		return "none"
	}
	return strings.Join(out, ", ")
}

type wireEntry struct {
	LeafInput *string `json:"leaf_input"`
	ExtraData *string `json:"extra_data"`
}

type wireEntries struct {
	Entries []wireEntry `json:"entries"`
}

// parseEntries reads a get-entries body without the library's types.
func parseEntries(body []byte) ([]stored, error) {
	var w wireEntries
	d := json.NewDecoder(bytes.NewReader(body))
	d.DisallowUnknownFields()
	if err := d.Decode(&w); err != nil {
		return nil, err
	}
	// exactly one JSON value: a client's decoder stops after the first one, so anything
	// in front of or behind the object would go unnoticed there
	end := int(d.InputOffset())
	var more json.RawMessage
	if err := d.Decode(&more); err != io.EOF {
		return nil, fmt.Errorf("%d bytes of further data after the first JSON value", len(body)-end)
	}
	var out []stored
	for i, e := range w.Entries {
		var s stored
		var err error
		if e.LeafInput != nil {
			if s.leaf, err = base64.StdEncoding.Strict().DecodeString(*e.LeafInput); err != nil {
				return nil, fmt.Errorf("entry %d leaf_input: %v", i, err)
			}
		}
		if e.ExtraData != nil {
			if s.extra, err = base64.StdEncoding.Strict().DecodeString(*e.ExtraData); err != nil {
				return nil, fmt.Errorf("entry %d extra_data: %v", i, err)
			}
		}
		out = append(out, s)
	}
	return out, nil
}

func short(b []byte) string {
	s := strings.TrimSpace(string(b))
	if len(s) > 160 {
		s = s[:160] + "…"
	}
	return s
}

const (
	getEntriesPath    = "/ct/v1/get-entries"
	entryAndProofPath = "/ct/v1/get-entry-and-proof"
)

func eapRequestOK(calls []reflog.Call, idx, ts int) bool {
	if len(calls) != 1 || calls[0].Method != "GetEntryAndProof" {
		return false
	}
	q := calls[0].Req.(*trillian.GetEntryAndProofRequest)
	return q.LogId == treeID && q.LeafIndex == int64(idx) && q.TreeSize == int64(ts)
}

func (k *checker) desc(cfg config, w *world, c rcase, via, backend, lib, oracle string) caseDesc {
	q := url.Values{}
	if c.start.present {
		q.Set("start", c.start.raw)
	}
	if c.end.present {
		q.Set("end", c.end.raw)
	}
	return caseDesc{Config: cfg.String(), TreeSize: w.size, Start: c.start.show(), End: c.end.show(), Via: via, Backend: backend, Library: lib, Oracle: oracle,
		URL: "/log" + getEntriesPath + "?" + q.Encode()}
}

// checkRequest applies the request part of the statement to the backend calls of one valid request.
// ok tells whether the literal statement holds (so that the response can be judged against want).
func (k *checker) checkRequest(cfg config, w *world, c rcase, via string, calls []reflog.Call, lib string) (ok bool) {
	s, e := c.start.val, c.end.val
	feat := overflowFeature(cfg, s, e)
	base, want := wantCount(cfg, s, e)
	oracle := fmt.Sprintf("exactly one GetLeavesByRange{LogId:%d StartIndex:%s Count:%s}", treeID, s, want)
	d := k.desc(cfg, w, c, via, showCalls(calls), lib, oracle)
	if len(calls) == 0 {
		k.viol("request: valid range answered without a backend call ["+feat+"]", fmt.Sprintf("%s tree=%d start=%s end=%s: no backend call, %s", cfg, w.size, s, e, lib), d)
		return false
	}
	if len(calls) != 1 || calls[0].Method != "GetLeavesByRange" {
		k.viol("request: backend calls other than one GetLeavesByRange", fmt.Sprintf("%s tree=%d start=%s end=%s: %s", cfg, w.size, s, e, showCalls(calls)), d)
		return false
	}
	q := calls[0].Req.(*trillian.GetLeavesByRangeRequest)
	ok = true
	bad := func(sig, what string) {
		ok = false
		k.viol(sig, fmt.Sprintf("%s tree=%d get-entries?start=%s&end=%s (%s): backend saw StartIndex=%d Count=%d; %s", cfg, w.size, s, e, via, q.StartIndex, q.Count, what), d)
	}
	if q.LogId != treeID {
		bad("request: wrong LogId", fmt.Sprintf("LogId %d, want %d", q.LogId, treeID))
	}
	if bi(q.StartIndex).Cmp(s) != 0 {
		bad("request: StartIndex differs from start ["+feat+"]", "the range must begin at start")
	}
	cnt := bi(q.Count)
	switch {
	case cnt.Sign() <= 0:
		bad("request: Count < 1 ["+feat+"]", "the range must be non-empty")
	case cnt.Cmp(bi(cfg.max)) > 0:
		bad("request: Count exceeds the configured maximum ["+feat+"]", fmt.Sprintf("at most %d entries may be asked for", cfg.max))
	}
	if last := add(new(big.Int).Add(bi(q.StartIndex), cnt), -1); cnt.Sign() > 0 && last.Cmp(e) > 0 {
		bad("request: range ends beyond end ["+feat+"]", fmt.Sprintf("last index asked for is %s", last))
	}
	if !ok {
		return false
	}
	if !cfg.align && cnt.Cmp(base) != 0 {
		bad("request: alignment off but Count is not min(end-start+1, max) ["+feat+"]", fmt.Sprintf("want Count=%s", base))
	}
	if cfg.align && cnt.Cmp(want) != 0 {
		bad("request: alignment on but Count is not the documented coercion ["+feat+"]", fmt.Sprintf("want Count=%s (min(end-start+1,max)=%s, cut at the next multiple of max only when end-start+1 >= max)", want, base))
	}
	return ok
}

func sameRequest(a, b []reflog.Call) bool {
	if len(a) != len(b) {
		return false
	}
	for i := range a {
		if a[i].Method != b[i].Method || !proto.Equal(a[i].Req, b[i].Req) {
			return false
		}
	}
	return true
}

func statusClass(st int) string {
	switch {
	case st == 200:
		return "200"
	case st >= 400 && st < 500:
		return "4xx"
	case st >= 500 && st < 600:
		return "5xx"
	}
	return fmt.Sprint(st)
}

func (k *checker) countGLBR(calls []reflog.Call) {
	for _, c := range calls {
		if c.Method == "GetLeavesByRange" {
			k.glbrSeen.Add(1)
		}
	}
}

// runCase evaluates one (start, end) request against one world under the current configuration.
func (k *checker) runCase(cfg config, w *world, c rcase) {
	x := w.get()
	defer w.put(x)
	k.runCaseOn(cfg, w, x, c)
}

// runCaseOn is runCase on a given front end (and its recorder).
func (k *checker) runCaseOn(cfg config, w *world, x *cx, c rcase) {
	x.rec.take()
	valid, lenient, class := c.verdict()
	q := url.Values{}
	if c.start.present {
		q.Set("start", c.start.raw)
	}
	if c.end.present {
		q.Set("end", c.end.raw)
	}
	k.r.Eval(1)
	var rsp fe.Resp
	pan, msg, stack := enum.Catch(func() { rsp = x.f.Do(context.Background(), http.MethodGet, getEntriesPath, q, nil) })
	calls := x.rec.take()
	k.countGLBR(calls)
	if pan {
		k.viol("panic in get-entries handler", msg+"\n"+stack, k.desc(cfg, w, c, "http", showCalls(calls), "panic: "+msg, class))
		return
	}
	lib := fmt.Sprintf("HTTP %d %s", rsp.Status, short(rsp.Body))
	rejected := rsp.Status >= 400 && rsp.Status < 500 && len(calls) == 0
	if valid && lenient && rejected {
		k.r.Add("plus_sign_parameters_rejected", 1)
		return
	}
	if !valid {
		d := k.desc(cfg, w, c, "http", showCalls(calls), lib, "4xx without any backend call ("+class+")")
		if len(calls) != 0 {
			k.viol("invalid parameters reach the backend: "+class, fmt.Sprintf("%s tree=%d start=%s end=%s: backend saw %s", cfg, w.size, c.start.show(), c.end.show(), showCalls(calls)), d)
		}
		if rsp.Status < 400 || rsp.Status > 499 {
			k.viol(fmt.Sprintf("invalid parameters answered %s: %s", statusClass(rsp.Status), class), fmt.Sprintf("%s tree=%d start=%s end=%s: %s", cfg, w.size, c.start.show(), c.end.show(), lib), d)
		}
		k.clientInvalid(cfg, w, x, c, class)
		return
	}
	if lenient {
		k.r.Add("plus_sign_parameters_read_as_integers", 1)
	}
	s, e := c.start.val, c.end.val
	k.r.Nontrivial(fmt.Sprintf("%s|%d|%s", cfg, w.size, c.key()))
	reqOK := k.checkRequest(cfg, w, c, "http", calls, lib)
	_, want := wantCount(cfg, s, e)
	feat := overflowFeature(cfg, s, e)
	size := bi(int64(w.size))
	if s.Cmp(size) >= 0 {
		k.r.Add("valid_ranges_beyond_tree", 1)
		if rsp.Status < 400 || rsp.Status > 499 {
			k.viol("response: start beyond the tree answered "+statusClass(rsp.Status)+" ["+feat+"]", fmt.Sprintf("%s tree=%d start=%s end=%s: %s", cfg, w.size, s, e, lib),
				k.desc(cfg, w, c, "http", showCalls(calls), lib, "4xx: no entry at start"))
		}
		if c.core {
			k.clientValid(cfg, w, x, c, calls, rsp.Status, nil)
		}
		return
	}
	k.r.Add("valid_ranges_inside_tree", 1)
	n := int(minB(want, new(big.Int).Sub(size, s)).Int64())
	s0 := int(s.Int64())
	oracle := fmt.Sprintf("200 with the stored leaf_input / extra_data of indices %d..%d", s0, s0+n-1)
	d := k.desc(cfg, w, c, "http", showCalls(calls), lib, oracle)
	if rsp.Status != 200 {
		k.viol("response: range inside the tree answered "+statusClass(rsp.Status)+" ["+feat+"]", fmt.Sprintf("%s tree=%d get-entries?start=%s&end=%s: %s; backend saw %s", cfg, w.size, s, e, lib, showCalls(calls)), d)
		k.clientValid(cfg, w, x, c, calls, rsp.Status, nil)
		return
	}
	got, err := parseEntries(rsp.Body)
	if err != nil {
		k.viol("response: body is not a get-entries JSON object", fmt.Sprintf("%s tree=%d start=%s end=%s: %v", cfg, w.size, s, e, err), d)
		return
	}
	if reqOK && len(got) != n {
		k.viol("response: number of entries ["+feat+"]", fmt.Sprintf("%s tree=%d start=%s end=%s: %d entries served, want %d", cfg, w.size, s, e, len(got), n), d)
	}
	if len(got) == 0 {
		k.viol("response: 200 without entries", fmt.Sprintf("%s tree=%d start=%s end=%s", cfg, w.size, s, e), d)
	}
	k.compareStored(cfg, w, c, "http", got, s0, d)
	if c.core || n <= 100 {
		// thorough tier: the +-2 neighbourhoods around a boundary are repeated through the client only for answers of up to 100 entries
		k.clientValid(cfg, w, x, c, calls, rsp.Status, got)
	}
	if n >= 2 && k.r.WantSample() {
		k.r.Sample(map[string]any{"config": cfg.String(), "tree_size": w.size, "start": s.String(), "end": e.String(), "backend_saw": showCalls(calls),
			"served": fmt.Sprintf("%d entries, byte-identical to stored indices %d..%d; each decodes to the submitted (pre)certificate, chain, type, timestamp", len(got), s0, s0+len(got)-1)})
	}
}

// compareStored checks served entries against the backend's stored bytes, in order, and runs the decode oracle.
func (k *checker) compareStored(cfg config, w *world, c rcase, via string, got []stored, s0 int, d caseDesc) {
	for i, g := range got {
		idx := s0 + i
		if idx >= w.size {
			k.viol("response: more entries than the tree holds ("+via+")", fmt.Sprintf("%s tree=%d: entry %d of the response would be index %d", cfg, w.size, i, idx), d)
			return
		}
		st := w.stored[idx]
		if !bytes.Equal(g.leaf, st.leaf) {
			k.viol("response: leaf_input differs from the stored leaf ("+via+")", fmt.Sprintf("%s tree=%d start=%s end=%s: entry %d (index %d) leaf_input %s, stored %s%s", cfg, w.size, c.start.show(), c.end.show(), i, idx, rep.Hex(g.leaf), rep.Hex(st.leaf), whichIndex(w, g.leaf, true)), d)
			return
		}
		if !bytes.Equal(g.extra, st.extra) {
			k.viol("response: extra_data differs from the stored extra data ("+via+")", fmt.Sprintf("%s tree=%d start=%s end=%s: entry %d (index %d) extra_data %s, stored %s%s", cfg, w.size, c.start.show(), c.end.show(), i, idx, rep.Hex(g.extra), rep.Hex(st.extra), whichIndex(w, g.extra, false)), d)
			return
		}
		// the served bytes equal the stored bytes: judge their decoding once per index
		w.decode[idx].Do(func() { k.decodeOracle(w, idx, g) })
	}
}

func whichIndex(w *world, b []byte, leaf bool) string {
	for i, st := range w.stored {
		if (leaf && bytes.Equal(st.leaf, b)) || (!leaf && bytes.Equal(st.extra, b)) {
			return fmt.Sprintf(" (these are the bytes of index %d)", i)
		}
	}
	return ""
}

func kindOf(s *sub) string {
	switch {
	case !s.pre:
		return "x509"
	case strings.Contains(s.label, "pre-issuer"):
		return "precert via pre-issuer"
	}
	return "precert"
}

func eqChain(got []ct.ASN1Cert, want [][]byte) bool {
	if len(got) != len(want) {
		return false
	}
	for i := range got {
		if !bytes.Equal(got[i].Data, want[i]) {
			return false
		}
	}
	return true
}

// entryMismatch compares a decoded entry with the ground truth of submission s at index idx.
func entryMismatch(e *ct.LogEntry, idx int, s *sub) string {
	if e == nil {
		return "nil entry"
	}
	te := e.Leaf.TimestampedEntry
	switch {
	case e.Index != int64(idx):
		return "index"
	case e.Leaf.Version != ct.V1 || e.Leaf.LeafType != ct.TimestampedEntryLeafType || te == nil:
		return "leaf header"
	case te.Timestamp != s.tsMillis:
		return "timestamp"
	case len(te.Extensions) != 0:
		return "extensions"
	case !eqChain(e.Chain, s.chainDER()):
		return "chain"
	}
	if s.pre {
		switch {
		case te.EntryType != ct.PrecertLogEntryType:
			return "entry type"
		case e.X509Cert != nil || e.Precert == nil || te.PrecertEntry == nil:
			return "entry arm"
		case !bytes.Equal(e.Precert.Submitted.Data, s.leaf.DER):
			return "submitted precertificate"
		case e.Precert.IssuerKeyHash != s.wantIKH || te.PrecertEntry.IssuerKeyHash != s.wantIKH:
			return "issuer key hash"
		case !bytes.Equal(te.PrecertEntry.TBSCertificate, s.wantTBS):
			return "tbs_certificate"
		case e.Precert.TBSCertificate == nil || !bytes.Equal(e.Precert.TBSCertificate.Raw, s.wantTBS) || !bytes.Equal(e.Precert.TBSCertificate.RawTBSCertificate, s.wantTBS):
			return "parsed tbs_certificate"
		case !bytes.Equal(e.Precert.TBSCertificate.RawSubjectPublicKeyInfo, s.leaf.T.Key.SPKI):
			return "parsed tbs_certificate public key"
		}
		return ""
	}
	switch {
	case te.EntryType != ct.X509LogEntryType:
		return "entry type"
	case e.Precert != nil || e.X509Cert == nil || te.X509Entry == nil:
		return "entry arm"
	case !bytes.Equal(te.X509Entry.Data, s.leaf.DER) || !bytes.Equal(e.X509Cert.Raw, s.leaf.DER):
		return "certificate"
	case !bytes.Equal(e.X509Cert.RawTBSCertificate, s.leaf.TBS) || !bytes.Equal(e.X509Cert.RawSubjectPublicKeyInfo, s.leaf.T.Key.SPKI):
		return "parsed certificate"
	}
	return ""
}

// decodeOracle: ct.LogEntryFromLeaf / ct.RawLogEntryFromLeaf on served bytes recover the submission.
func (k *checker) decodeOracle(w *world, idx int, g stored) {
	s := w.subs[idx]
	k.r.Eval(1)
	k.r.Add("entries_decoded", 1)
	d := map[string]any{"tree_size": w.size, "index": idx, "shape": s.label, "leaf_input": rep.Hex(g.leaf), "extra_data": rep.Hex(g.extra)}
	le := &ct.LeafEntry{LeafInput: g.leaf, ExtraData: g.extra}
	var e *ct.LogEntry
	var raw *ct.RawLogEntry
	var err, rerr error
	pan, msg, stack := enum.Catch(func() {
		e, err = ct.LogEntryFromLeaf(int64(idx), le)
		raw, rerr = ct.RawLogEntryFromLeaf(int64(idx), le)
	})
	kind := kindOf(s)
	switch {
	case pan:
		k.viol("decode: panic in LogEntryFromLeaf kind="+kind, msg+"\n"+stack, d)
	case x509.IsFatal(err) || e == nil || rerr != nil:
		k.viol("decode: LogEntryFromLeaf fails on a served entry kind="+kind, fmt.Sprintf("index %d (%s): LogEntryFromLeaf err=%v, RawLogEntryFromLeaf err=%v", idx, s.label, err, rerr), d)
	default:
		if m := entryMismatch(e, idx, s); m != "" {
			k.viol("decode: LogEntryFromLeaf "+m+" differs from the submission kind="+kind, fmt.Sprintf("index %d (%s): field %q", idx, s.label, m), d)
		}
		if raw.Index != int64(idx) || !bytes.Equal(raw.Cert.Data, s.leaf.DER) || !eqChain(raw.Chain, s.chainDER()) ||
			raw.Leaf.TimestampedEntry == nil || raw.Leaf.TimestampedEntry.Timestamp != s.tsMillis {
			k.viol("decode: RawLogEntryFromLeaf differs from the submission kind="+kind, fmt.Sprintf("index %d (%s)", idx, s.label), d)
		}
	}
}

// clientValid repeats a valid request through client.LogClient (GetRawEntries, GetEntries).
func (k *checker) clientValid(cfg config, w *world, x *cx, c rcase, first []reflog.Call, status int, got []stored) {
	if c.start.raw != c.start.val.String() || c.end.raw != c.end.val.String() {
		return // the client only sends canonical decimals
	}
	s, e := c.start.val.Int64(), c.end.val.Int64()
	ctx := context.Background()
	k.r.Eval(2)
	var rawRsp *ct.GetEntriesResponse
	var rerr error
	pan, msg, stack := enum.Catch(func() { rawRsp, rerr = x.lc.GetRawEntries(ctx, s, e) })
	c1 := x.rec.take()
	k.countGLBR(c1)
	var ents []ct.LogEntry
	var eerr error
	if !pan {
		pan, msg, stack = enum.Catch(func() { ents, eerr = x.lc.GetEntries(ctx, s, e) })
	}
	c2 := x.rec.take()
	k.countGLBR(c2)
	d := k.desc(cfg, w, c, "client.LogClient", showCalls(c1)+" / "+showCalls(c2), fmt.Sprintf("GetRawEntries err=%v; GetEntries err=%v", rerr, eerr), "same request and same entries as the direct HTTP call")
	if pan {
		k.viol("panic in client.LogClient get-entries", msg+"\n"+stack, d)
		return
	}
	if !sameRequest(first, c1) || !sameRequest(first, c2) {
		k.viol("client: backend request differs from the one of the direct HTTP call", fmt.Sprintf("%s tree=%d start=%d end=%d: http %s, GetRawEntries %s, GetEntries %s", cfg, w.size, s, e, showCalls(first), showCalls(c1), showCalls(c2)), d)
	}
	if status != 200 {
		if rerr == nil || eerr == nil {
			k.viol("client: no error although the log answered "+statusClass(status), fmt.Sprintf("%s tree=%d start=%d end=%d", cfg, w.size, s, e), d)
		}
		return
	}
	if rerr != nil || rawRsp == nil {
		k.viol("client: GetRawEntries fails on a 200 answer", fmt.Sprintf("%s tree=%d start=%d end=%d: %v", cfg, w.size, s, e, rerr), d)
	} else {
		var cg []stored
		for _, le := range rawRsp.Entries {
			cg = append(cg, stored{leaf: le.LeafInput, extra: le.ExtraData})
		}
		if len(cg) != len(got) {
			k.viol("client: GetRawEntries entry count differs from the HTTP body", fmt.Sprintf("%s tree=%d start=%d end=%d: %d vs %d", cfg, w.size, s, e, len(cg), len(got)), d)
		}
		k.compareStored(cfg, w, c, "GetRawEntries", cg, int(s), d)
	}
	if eerr != nil {
		k.viol("client: GetEntries fails on a 200 answer", fmt.Sprintf("%s tree=%d start=%d end=%d: %v", cfg, w.size, s, e, eerr), d)
		return
	}
	if len(ents) != len(got) {
		k.viol("client: GetEntries entry count differs from the HTTP body", fmt.Sprintf("%s tree=%d start=%d end=%d: %d vs %d", cfg, w.size, s, e, len(ents), len(got)), d)
	}
	for i := range ents {
		idx := int(s) + i
		if idx >= w.size {
			break
		}
		if m := entryMismatch(&ents[i], idx, w.subs[idx]); m != "" {
			k.viol("client: GetEntries "+m+" differs from the submission kind="+kindOf(w.subs[idx]), fmt.Sprintf("%s tree=%d start=%d end=%d: entry %d (index %d, %s) field %q", cfg, w.size, s, e, i, idx, w.subs[idx].label, m), d)
			break
		}
	}
	k.r.Add("client_entries_decoded", int64(len(ents)))
}

// clientInvalid: an invalid integer pair through the client never reaches the backend and yields an error.
func (k *checker) clientInvalid(cfg config, w *world, x *cx, c rcase, class string) {
	if c.start.val == nil || c.end.val == nil || !c.start.val.IsInt64() || !c.end.val.IsInt64() ||
		c.start.raw != c.start.val.String() || c.end.raw != c.end.val.String() {
		return
	}
	s, e := c.start.val.Int64(), c.end.val.Int64()
	k.r.Eval(1)
	var rerr, eerr error
	pan, msg, stack := enum.Catch(func() {
		_, rerr = x.lc.GetRawEntries(context.Background(), s, e)
		_, eerr = x.lc.GetEntries(context.Background(), s, e)
	})
	calls := x.rec.take()
	k.countGLBR(calls)
	d := k.desc(cfg, w, c, "client.LogClient", showCalls(calls), fmt.Sprintf("GetRawEntries err=%v; GetEntries err=%v", rerr, eerr), "error, no backend call")
	switch {
	case pan:
		k.viol("panic in client.LogClient get-entries", msg+"\n"+stack, d)
	case len(calls) != 0:
		k.viol("invalid parameters reach the backend through the client: "+class, fmt.Sprintf("%s start=%d end=%d: %s", cfg, s, e, showCalls(calls)), d)
	case rerr == nil || eerr == nil:
		k.viol("client: no error for invalid parameters: "+class, fmt.Sprintf("%s start=%d end=%d", cfg, s, e), d)
	}
}

// methodCheck: a well-formed range sent with another HTTP method is "another parameter combination".
func (k *checker) methodCheck(cfg config, w *world) {
	x := w.get()
	defer w.put(x)
	for _, m := range []string{http.MethodPost, http.MethodHead, http.MethodPut, http.MethodDelete} {
		x.rec.take()
		k.r.Eval(1)
		q := url.Values{"start": {"0"}, "end": {"0"}}
		var rsp fe.Resp
		pan, msg, stack := enum.Catch(func() { rsp = x.f.Do(context.Background(), m, getEntriesPath, q, nil) })
		calls := x.rec.take()
		k.countGLBR(calls)
		d := map[string]any{"config": cfg.String(), "tree_size": w.size, "method": m, "url": "/log" + getEntriesPath + "?" + q.Encode(), "library": fmt.Sprintf("HTTP %d %s", rsp.Status, short(rsp.Body)), "backend_calls_seen": showCalls(calls)}
		switch {
		case pan:
			k.viol("panic in get-entries handler", msg+"\n"+stack, d)
		case len(calls) != 0 || rsp.Status < 400 || rsp.Status > 499:
			k.viol("get-entries with a method other than GET reaches the backend or is not answered 4xx", fmt.Sprintf("%s %s: HTTP %d, backend saw %s", cfg, m, rsp.Status, showCalls(calls)), d)
		}
	}
}

// ---------------------------------------------------------------------------
// alphabets

func dedupe(vs []*big.Int) []*big.Int {
	sort.Slice(vs, func(i, j int) bool { return vs[i].Cmp(vs[j]) < 0 })
	var out []*big.Int
	for _, v := range vs {
		if len(out) == 0 || out[len(out)-1].Cmp(v) != 0 {
			out = append(out, v)
		}
	}
	return out
}

// boundary is the alphabet B for one (max, tree size).
func boundary(max int64, size int, thorough bool) []*big.Int {
	m := bi(max)
	mul := func(k int64) *big.Int { return new(big.Int).Mul(m, bi(k)) }
	p31 := new(big.Int).Lsh(big1, 31)
	p32 := new(big.Int).Lsh(big1, 32)
	p62 := new(big.Int).Lsh(big1, 62)
	vs := []*big.Int{bi(0), bi(1), bi(2),
		add(m, -1), m, add(m, 1), add(mul(2), -1), mul(2), add(mul(2), 1), add(mul(3), -1), mul(3), add(mul(3), 1),
		add(p31, -1), add(p31, 1), add(p32, -1), p32, p62,
		new(big.Int).Sub(bigMaxI64, mul(2)), add(new(big.Int).Sub(bigMaxI64, mul(2)), 1),
		add(new(big.Int).Sub(bigMaxI64, m), -1), new(big.Int).Sub(bigMaxI64, m), add(new(big.Int).Sub(bigMaxI64, m), 1), add(new(big.Int).Sub(bigMaxI64, m), 2),
		add(bigMaxI64, -2), add(bigMaxI64, -1), bigMaxI64,
		bi(-1), bi(-max), add(bigMinI64, 1), bigMinI64,
		bi(int64(size) - 1), bi(int64(size)), bi(int64(size) + 1)}
	if thorough {
		// the largest multiple of max below 2^63 and its neighbours, and +-2 around the int64 / tree / batch boundaries
		top := new(big.Int).Sub(bigMaxI64, new(big.Int).Mod(bigMaxI64, m))
		base := append([]*big.Int{}, vs...)
		base = append(base, top, new(big.Int).Sub(top, m))
		for _, v := range base {
			for _, dlt := range []int64{-2, -1, 1, 2} {
				vs = append(vs, add(v, dlt))
			}
		}
		vs = append(vs, top, new(big.Int).Sub(top, m))
	}
	var in []*big.Int
	for _, v := range vs {
		if v.Cmp(bigMinI64) >= 0 && v.Cmp(bigMaxI64) <= 0 {
			in = append(in, v)
		}
	}
	return dedupe(in)
}

var rawStrings = []struct {
	present bool
	raw     string
}{
	{false, ""}, {true, ""}, {true, "x"}, {true, "1e3"}, {true, "+1"}, {true, " 1"}, {true, "1 "}, {true, "9223372036854775808"}, {true, "-9223372036854775809"},
	{true, "0x10"}, {true, "1.0"}, {true, "1_0"}, {true, "-0"}, {true, "007"}, {true, "١"}, {true, "1,2"}, {true, "99999999999999999999999999"},
}

// cases builds the request list of one (max, world).
func cases(max int64, size int, squareUpTo int64, thorough bool) []rcase {
	seen := map[string]bool{}
	var out []rcase
	put := func(c rcase) {
		if k := c.key(); !seen[k] {
			seen[k] = true
			out = append(out, c)
		}
	}
	B := boundary(max, size, false)
	for _, s := range B {
		for _, e := range B {
			put(rcase{num(s), num(e), true})
		}
	}
	for s := int64(0); s <= squareUpTo; s++ {
		for e := int64(0); e <= squareUpTo; e++ {
			put(rcase{num(bi(s)), num(bi(e)), true})
		}
	}
	for _, a := range rawStrings {
		for _, b := range rawStrings {
			put(rcase{classify(a.present, a.raw), classify(b.present, b.raw), true})
		}
		// each raw string against well-formed partners on both sides
		for _, v := range []int64{0, 1, max, 1<<63 - 1, -1} {
			put(rcase{classify(a.present, a.raw), num(bi(v)), true})
			put(rcase{num(bi(v)), classify(a.present, a.raw), true})
		}
	}
	if thorough {
		BT := boundary(max, size, true)
		for _, s := range BT {
			for _, e := range BT {
				put(rcase{num(s), num(e), false})
			}
		}
	}
	return out
}

// ---------------------------------------------------------------------------
// get-entry-and-proof serves the same bytes as get-entries for the same index

func (k *checker) entryAndProof(cfg config, w *world, idx int) {
	x := w.get()
	defer w.put(x)
	k.entryAndProofOn(cfg, w, x, idx)
}

func (k *checker) entryAndProofOn(cfg config, w *world, x *cx, idx int) {
	x.rec.take()
	for _, ts := range []int{idx + 1, w.size} {
		if ts != w.size && ts != idx+1 {
			continue
		}
		k.r.Eval(1)
		k.r.Nontrivial(fmt.Sprintf("eap|%d|%d|%d", w.size, idx, ts))
		var rp, re fe.Resp
		var pcalls []reflog.Call
		pan, msg, stack := enum.Catch(func() {
			rp = x.f.Get(entryAndProofPath, "leaf_index", fmt.Sprint(idx), "tree_size", fmt.Sprint(ts))
			pcalls = x.rec.take()
			re = x.f.Get(getEntriesPath, "start", fmt.Sprint(idx), "end", fmt.Sprint(idx))
		})
		k.countGLBR(x.rec.take())
		d := map[string]any{"config": cfg.String(), "tree_size_of_log": w.size, "leaf_index": idx, "tree_size": ts,
			"get_entry_and_proof": fmt.Sprintf("HTTP %d %s", rp.Status, short(rp.Body)), "get_entries": fmt.Sprintf("HTTP %d %s", re.Status, short(re.Body))}
		if pan {
			k.viol("panic in get-entry-and-proof", msg+"\n"+stack, d)
			return
		}
		if !eapRequestOK(pcalls, idx, ts) {
			d["backend_calls_seen"] = showCalls(pcalls)
			k.viol("get-entry-and-proof: backend request is not one GetEntryAndProof for the index and tree size", fmt.Sprintf("index %d tree_size %d: %s", idx, ts, showCalls(pcalls)), d)
		}
		if rp.Status != 200 || re.Status != 200 {
			k.viol("get-entry-and-proof / get-entries of an existing index not answered 200", fmt.Sprintf("index %d tree_size %d of a log of %d: %d / %d", idx, ts, w.size, rp.Status, re.Status), d)
			continue
		}
		var pr struct {
			LeafInput *string  `json:"leaf_input"`
			ExtraData *string  `json:"extra_data"`
			AuditPath []string `json:"audit_path"`
		}
		if err := json.Unmarshal(rp.Body, &pr); err != nil || pr.LeafInput == nil || pr.ExtraData == nil {
			k.viol("get-entry-and-proof body malformed", fmt.Sprintf("index %d: %v", idx, err), d)
			continue
		}
		li, err1 := base64.StdEncoding.Strict().DecodeString(*pr.LeafInput)
		ed, err2 := base64.StdEncoding.Strict().DecodeString(*pr.ExtraData)
		ge, err3 := parseEntries(re.Body)
		if err1 != nil || err2 != nil || err3 != nil || len(ge) != 1 {
			k.viol("get-entry-and-proof body malformed", fmt.Sprintf("index %d: %v %v %v, %d entries", idx, err1, err2, err3, len(ge)), d)
			continue
		}
		if !bytes.Equal(li, ge[0].leaf) || !bytes.Equal(ed, ge[0].extra) {
			k.viol("get-entry-and-proof bytes differ from get-entries for the same index", fmt.Sprintf("index %d tree_size %d: leaf_input equal=%v extra_data equal=%v", idx, ts, bytes.Equal(li, ge[0].leaf), bytes.Equal(ed, ge[0].extra)), d)
		}
		if !bytes.Equal(li, w.stored[idx].leaf) || !bytes.Equal(ed, w.stored[idx].extra) {
			k.viol("get-entry-and-proof bytes differ from the stored leaf", fmt.Sprintf("index %d tree_size %d%s", idx, ts, whichIndex(w, li, true)), d)
		}
	}
}

// ---------------------------------------------------------------------------
// scripted backend replies (reflog.SetHook)

type script struct {
	name string
	// edit rewrites the reference reply; expect tells what must be served (nil: anything but 200).
	edit func(req *trillian.GetLeavesByRangeRequest, rsp *trillian.GetLeavesByRangeResponse) (expect []stored, ok bool)
}

func pattern(n int, seed byte) []byte {
	b := make([]byte, n)
	for i := range b {
		b[i] = byte(i)*31 + seed
	}
	return b
}

func asStored(ls []*trillian.LogLeaf) []stored {
	out := []stored{}
	for _, l := range ls {
		out = append(out, stored{leaf: l.LeafValue, extra: l.ExtraData})
	}
	return out
}

func scripts(thorough bool) []script {
	var out []script
	maxShort := 3
	if thorough {
		maxShort = 8
	}
	for n := 1; n <= maxShort; n++ {
		n := n
		out = append(out, script{fmt.Sprintf("short reply: first %d leaves", n), func(req *trillian.GetLeavesByRangeRequest, rsp *trillian.GetLeavesByRangeResponse) ([]stored, bool) {
			if len(rsp.Leaves) <= n {
				return nil, false // not shorter than the reference reply: nothing to script
			}
			rsp.Leaves = rsp.Leaves[:n]
			return asStored(rsp.Leaves), true
		}})
	}
	garbage := func(name string, f func(i int, l *trillian.LogLeaf)) script {
		return script{name, func(req *trillian.GetLeavesByRangeRequest, rsp *trillian.GetLeavesByRangeResponse) ([]stored, bool) {
			if len(rsp.Leaves) == 0 {
				return nil, false
			}
			for i, l := range rsp.Leaves {
				f(i, l)
			}
			return asStored(rsp.Leaves), true
		}}
	}
	out = append(out,
		garbage("stored bytes that are no MerkleTreeLeaf", func(i int, l *trillian.LogLeaf) {
			l.LeafValue, l.ExtraData = pattern(300+i, byte(i)), pattern(17+i, 0xf0)
		}),
		garbage("empty extra data", func(i int, l *trillian.LogLeaf) { l.ExtraData = nil }),
		garbage("leaf with trailing bytes and 70000-byte extra data", func(i int, l *trillian.LogLeaf) {
			l.LeafValue = append(append([]byte{}, l.LeafValue...), 0, 1, 2)
			l.ExtraData = pattern(70000, byte(i))
		}),
		garbage("leaf bytes 0x00..0xff", func(i int, l *trillian.LogLeaf) {
			l.LeafValue = pattern(256, 0)[:256]
			l.ExtraData = []byte{0xff, 0x00, 0x80, byte(i)}
		}),
	)
	// a reply far larger than any sensible response budget (three stored values of 12 MiB, then small ones): every leaf is
	// served, in its place - a front end may answer with a shorter run of consecutive entries, never with a gap
	out = append(out, script{"three 12 MiB leaves followed by small ones", func(req *trillian.GetLeavesByRangeRequest, rsp *trillian.GetLeavesByRangeResponse) ([]stored, bool) {
		if req.StartIndex != 0 || len(rsp.Leaves) < 5 {
			return nil, false
		}
		for i := 0; i < 3; i++ {
			rsp.Leaves[i].LeafValue = pattern(12<<20, byte(i+1))
		}
		return asStored(rsp.Leaves), true
	}})
	bad := func(name string, f func(req *trillian.GetLeavesByRangeRequest, rsp *trillian.GetLeavesByRangeResponse) bool) script {
		return script{name, func(req *trillian.GetLeavesByRangeRequest, rsp *trillian.GetLeavesByRangeResponse) ([]stored, bool) {
			return nil, f(req, rsp)
		}}
	}
	out = append(out,
		bad("misbehaving backend: one leaf more than asked for", func(req *trillian.GetLeavesByRangeRequest, rsp *trillian.GetLeavesByRangeResponse) bool {
			if int64(len(rsp.Leaves)) != req.Count {
				return false
			}
			last := rsp.Leaves[len(rsp.Leaves)-1]
			extra := proto.Clone(last).(*trillian.LogLeaf)
			extra.LeafIndex++
			rsp.Leaves = append(rsp.Leaves, extra)
			return true
		}),
		bad("misbehaving backend: every leaf index shifted by one", func(req *trillian.GetLeavesByRangeRequest, rsp *trillian.GetLeavesByRangeResponse) bool {
			for _, l := range rsp.Leaves {
				l.LeafIndex++
			}
			return len(rsp.Leaves) > 0
		}),
		bad("misbehaving backend: last leaf index shifted by one", func(req *trillian.GetLeavesByRangeRequest, rsp *trillian.GetLeavesByRangeResponse) bool {
			if len(rsp.Leaves) == 0 {
				return false
			}
			rsp.Leaves[len(rsp.Leaves)-1].LeafIndex++
			return true
		}),
		bad("misbehaving backend: first two leaves swapped", func(req *trillian.GetLeavesByRangeRequest, rsp *trillian.GetLeavesByRangeResponse) bool {
			if len(rsp.Leaves) < 2 {
				return false
			}
			rsp.Leaves[0], rsp.Leaves[1] = rsp.Leaves[1], rsp.Leaves[0]
			return true
		}),
		bad("misbehaving backend: leaves of an earlier range", func(req *trillian.GetLeavesByRangeRequest, rsp *trillian.GetLeavesByRangeResponse) bool {
			if len(rsp.Leaves) == 0 || req.StartIndex == 0 {
				return false
			}
			for _, l := range rsp.Leaves {
				l.LeafIndex--
			}
			return true
		}),
	)
	return out
}

// hookPhase runs every script on every valid in-tree range of a small square over a dedicated log.
func (k *checker) hookPhase(cfg config, hw *world) {
	x := hw.get()
	defer hw.put(x)
	lim := int64(hw.size) + 1
	for _, sc := range scripts(k.r.Thorough()) {
		for s := int64(0); s < int64(hw.size); s++ {
			for e := s; e <= lim; e++ {
				var expect []stored
				applied := false
				hw.log.SetHook(func(method string, req proto.Message, next func() (proto.Message, error)) (proto.Message, error) {
					m, err := next()
					if method != "GetLeavesByRange" || err != nil {
						return m, err
					}
					rsp := m.(*trillian.GetLeavesByRangeResponse)
					expect, applied = sc.edit(req.(*trillian.GetLeavesByRangeRequest), rsp)
					return rsp, nil
				})
				x.rec.take()
				var rsp fe.Resp
				pan, msg, stack := enum.Catch(func() { rsp = x.f.Get(getEntriesPath, "start", fmt.Sprint(s), "end", fmt.Sprint(e)) })
				hw.log.SetHook(nil)
				calls := x.rec.take()
				if !applied {
					continue
				}
				k.r.Eval(1)
				k.r.Add("scripted_replies", 1)
				k.r.Nontrivial(fmt.Sprintf("hook|%s|%s|%d|%d", cfg, sc.name, s, e))
				c := rcase{num(bi(s)), num(bi(e)), true}
				lib := fmt.Sprintf("HTTP %d %s", rsp.Status, short(rsp.Body))
				if pan {
					k.viol("panic in get-entries handler (scripted reply)", msg+"\n"+stack, k.desc(cfg, hw, c, "http, "+sc.name, showCalls(calls), "panic", ""))
					continue
				}
				if expect == nil {
					d := k.desc(cfg, hw, c, "http, "+sc.name, showCalls(calls), lib, "not 200: the reply does not hold the leaves of start, start+1, ...")
					if rsp.Status == 200 {
						k.viol("scripted reply served although its leaves are not those of the range: "+sc.name, fmt.Sprintf("%s start=%d end=%d: %s", cfg, s, e, lib), d)
					}
					continue
				}
				d := k.desc(cfg, hw, c, "http, "+sc.name, showCalls(calls), lib, fmt.Sprintf("200 with exactly the %d scripted leaves, unmodified", len(expect)))
				if rsp.Status != 200 {
					k.viol("scripted reply not passed through ("+statusClass(rsp.Status)+"): "+strings.SplitN(sc.name, ":", 2)[0], fmt.Sprintf("%s start=%d end=%d %s: %s", cfg, s, e, sc.name, lib), d)
					continue
				}
				got, err := parseEntries(rsp.Body)
				if err != nil {
					k.viol("response: body is not a get-entries JSON object", fmt.Sprint(err), d)
					continue
				}
				same := len(got) == len(expect)
				if strings.HasPrefix(sc.name, "three 12 MiB") {
					same = len(got) >= 1 && len(got) <= len(expect) // (a front end may cut an enormous answer short: a prefix is fine, a gap is not)
				}
				for i := 0; same && i < len(got); i++ {
					same = bytes.Equal(got[i].leaf, expect[i].leaf) && bytes.Equal(got[i].extra, expect[i].extra)
				}
				if !same {
					k.viol("scripted reply not passed through unchanged: "+strings.SplitN(sc.name, ":", 2)[0], fmt.Sprintf("%s start=%d end=%d %s: %d entries served, %d scripted", cfg, s, e, sc.name, len(got), len(expect)), d)
				}
			}
		}
	}
}

// concurrentPhase: two get-entries requests in flight at once on one front end. The first one's backend read is held
// open while the second is issued (ranges chosen so that their decimal spellings collide when run together, plus
// ordinary ones); each answer must hold the stored entries of ITS OWN range, beginning at its start. The hold is a
// scheduling aid only (the second request gets half a second of real time to reach the backend or finish): no oracle
// depends on it.
func (k *checker) concurrentPhase(cfg config, w *world) {
	x := w.get()
	defer w.put(x)
	ranges := [][2]int64{{1, 112}, {11, 12}, {2, 345}, {23, 45}, {5, 560}, {55, 60}, {0, 0}, {10, 11}, {101, 1011}, {1, 10}, {110, 11}, {0, 999}, {1000, 1999}}
	var valid [][2]int64
	for _, r := range ranges {
		if r[0] <= r[1] && r[0] < int64(w.size) {
			valid = append(valid, r)
		}
	}
	judge := func(who string, r [2]int64, rsp fe.Resp, other [2]int64) {
		c := rcase{num(bi(r[0])), num(bi(r[1])), true}
		lib := fmt.Sprintf("HTTP %d %s", rsp.Status, short(rsp.Body))
		d := k.desc(cfg, w, c, "http, "+who+fmt.Sprintf(" while get-entries(%d,%d) was in flight on the same front end", other[0], other[1]), "", lib, fmt.Sprintf("200 with stored entries %d, %d, ...", r[0], r[0]+1))
		if rsp.Status != 200 {
			k.viol("concurrent get-entries: a valid range is not answered 200", fmt.Sprintf("%s tree=%d [%d,%d]: %s", cfg, w.size, r[0], r[1], lib), d)
			return
		}
		got, err := parseEntries(rsp.Body)
		if err != nil || len(got) == 0 || int64(len(got)) > r[1]-r[0]+1 {
			k.viol("concurrent get-entries: answer does not hold between one and end-start+1 entries", fmt.Sprintf("%s tree=%d [%d,%d]: %d entries, err=%v", cfg, w.size, r[0], r[1], len(got), err), d)
			return
		}
		for i := range got {
			st := w.stored[int(r[0])+i]
			if !bytes.Equal(got[i].leaf, st.leaf) || !bytes.Equal(got[i].extra, st.extra) {
				k.viol("concurrent get-entries: an answer holds entries of another range", fmt.Sprintf("%s tree=%d [%d,%d]: entry %d of the answer is not stored entry %d", cfg, w.size, r[0], r[1], i, int(r[0])+i), d)
				return
			}
		}
	}
	for _, a := range valid {
		for _, b := range valid {
			if a == b {
				continue
			}
			k.r.Eval(1)
			k.r.Nontrivial(fmt.Sprintf("conc|%s|%v|%v", cfg, a, b))
			entered, release := make(chan struct{}), make(chan struct{})
			var once sync.Once
			x.rec.Log.SetHook(func(method string, req proto.Message, next func() (proto.Message, error)) (proto.Message, error) {
				if method == "GetLeavesByRange" && req.(*trillian.GetLeavesByRangeRequest).StartIndex == a[0] {
					held := false
					once.Do(func() { held = true })
					if held {
						close(entered)
						<-release
					}
				}
				return next()
			})
			var ra, rb fe.Resp
			var wg sync.WaitGroup
			wg.Add(1)
			doneA := make(chan struct{})
			go func() {
				defer wg.Done()
				defer close(doneA)
				ra = x.f.Get(getEntriesPath, "start", fmt.Sprint(a[0]), "end", fmt.Sprint(a[1]))
			}()
			select {
			case <-entered:
			case <-doneA: // (answered without a backend read: judged below like any answer)
			}
			doneB := make(chan struct{})
			go func() {
				rb = x.f.Get(getEntriesPath, "start", fmt.Sprint(b[0]), "end", fmt.Sprint(b[1]))
				close(doneB)
			}()
			select {
			case <-doneB:
			case <-time.After(500 * time.Millisecond):
			}
			close(release)
			wg.Wait()
			<-doneB
			x.rec.Log.SetHook(nil)
			x.rec.take()
			judge("first request", a, ra, b)
			judge("second request", b, rb, a)
		}
	}
}

// ---------------------------------------------------------------------------

func TestCheck(t *testing.T) {
	silenceKlog()
	r := rep.New("C07", "exploration")
	th := r.Thorough()
	k := &checker{r: r}

	maxes := []int64{1, 2, 3, 7, 1000}
	squareMax := int64(7) // full square [0, 3*max+2]^2 for max up to this
	if th {
		maxes = []int64{1, 2, 3, 4, 5, 7, 8, 10, 16, 31, 32, 1000}
		squareMax = 32
	}
	sizesFor := func(max int64) []int {
		s := []int{0, 1, 5, int(2*max + 1)}
		if th {
			s = append(s, 2, int(max), int(3*max))
		}
		sort.Ints(s)
		var out []int
		for _, v := range s {
			if v > 3001 { // thorough, max=1000: 3*max would be 3000
				continue
			}
			if len(out) == 0 || out[len(out)-1] != v {
				out = append(out, v)
			}
		}
		return out
	}
	need := map[int]bool{}
	largest := 0
	for _, m := range maxes {
		for _, s := range sizesFor(m) {
			need[s] = true
			if s > largest {
				largest = s
			}
		}
	}

	r.Rule(fmt.Sprintf("max in %v x align in {on, off} (the real MaxGetEntriesAllowed variable and align_getentries flag, set sequentially) x tree size in {0, 1, 5, 2max+1%s} "+
		"(histories of certificates and precertificates in %d shapes: direct under a root, via one / two intermediates, via a pre-issuer, P-256 / P-384 / RSA / Ed25519 signers, 70000-byte extension, embedded SCT list, "+
		"root sent or omitted, boundary timestamps; submitted through add-chain / add-pre-chain, integrated in batches) x (start, end) in B x B with "+
		"B = {0,1,2, k*max-1, k*max, k*max+1 (k=1..3), 2^31-1, 2^31+1, 2^32-1, 2^32, 2^62, MaxInt64-2max(+1), MaxInt64-max-1..MaxInt64-max+2, MaxInt64-2..MaxInt64, -1, -max, MinInt64, MinInt64+1, size-1, size, size+1%s} "+
		"plus every pair of [0, 3max+2]^2 for max <= %d, plus %d raw strings (missing, empty, x, 1e3, +1, ' 1', '1 ', 2^63, -2^63-1, 0x10, 1.0, 1_0, -0, 007, a non-ASCII digit, '1,2', 26 digits) for each parameter against each other and against well-formed partners; "+
		"each valid request is repeated through client.LogClient.GetRawEntries and GetEntries over the in-process RoundTripper; a well-formed range with POST / HEAD / PUT / DELETE; per world every index (large worlds: boundary indices and every 97th) through get-entry-and-proof at tree_size index+1 and size; "+
		"per configuration scripted backend replies (short by 1..n leaves, undecodable / empty / oversized bytes, surplus leaf, shifted / swapped / stale indices) on every in-tree range of a 5-leaf (thorough: 12-leaf) log. "+
		"per configuration a disconnecting-client pass on the 5-leaf log (sequential, GOMAXPROCS(1), collector off): each of 6 requests (get-entries answered 200 / 4xx, get-entry-and-proof) served to a ResponseWriter whose Write fails after 0 bytes / 1 byte / half of the body or reports a short write (0 bytes / half) without error, followed back to back by 1..3 ordinary requests (the same request, another range, get-entry-and-proof%s) plus a closing get-entries and get-entry-and-proof, each compared byte for byte with its fault-free answer and judged by the ordinary oracle. "+
		"distinct_nontrivial = distinct (config, tree size, start, end) with 0 <= start <= end (a backend call is due), plus get-entry-and-proof probes, applied scripts and disconnect sequences",
		maxes, map[bool]string{true: ", 2, max, 3max", false: ""}[th], nShapes, map[bool]string{true: " and +-1, +-2 around each, and the largest multiple of max below 2^63", false: ""}[th], squareMax, len(rawStrings),
		map[bool]string{true: ", an invalid request; further fault offsets 7, length-1", false: ""}[th]))
	r.Assume(
		"a parameter is a decimal integer iff it matches -?[0-9]+ (RFC 6962 s4.6 'in decimal'); an explicit plus sign is left open: either refused with 4xx and no backend call, or read as the integer it denotes (counted in plus_sign_*)",
		"with alignment off the backend must be asked for exactly min(end-start+1, max) entries; with alignment on, requests of at least max entries are cut at the next multiple of max (Count = max - start mod max, the documented coercion), which only ever shortens the range",
		"the reference backend returns the leaves it holds from start (fewer than asked at the end of the tree), so the expected response is min(Count, size-start) entries; start >= size must be answered 4xx",
		"replies of a misbehaving backend (surplus, wrong or unordered indices) must not be served with status 200",
		"a response body is exactly one JSON value (optionally followed by white space): bytes in front of or behind it are a violation even where a streaming decoder would not notice them",
		"a request whose response cannot be written (client gone, short write) must leave no trace: every later answer is byte-identical to the fault-free answer to the same request; for a failing (not short) writer the bytes it accepted are a prefix of the fault-free body",
		"the entry parser is judged once per (history, index) on bytes already proven identical to the stored ones",
		"precertificate ground truth: tbs_certificate = the template without the poison extension (issuer name and authority key identifier of the final issuer when a pre-issuer signed), issuer_key_hash = SHA-256 of the final issuer's SubjectPublicKeyInfo")

	// ---- histories
	h := newHierarchy()
	subs := make([]*sub, largest)
	enum.ParFor(largest, nil, func(i int) { subs[i] = h.mkSub(i) })
	var sizes []int
	for s := range need {
		sizes = append(sizes, s)
	}
	sort.Ints(sizes)
	worlds := map[int]*world{}
	werr := make([]error, len(sizes))
	ws := make([]*world, len(sizes))
	enum.ParFor(len(sizes), nil, func(i int) { ws[i], werr[i] = buildWorld(h, subs, sizes[i], enum.Workers) })
	for i, s := range sizes {
		if werr[i] != nil {
			r.Violation("harness: history could not be built", werr[i].Error(), map[string]any{"tree_size": s})
			r.Finish()
		}
		worlds[s] = ws[i]
	}
	hookSize := 5
	if th {
		hookSize = 12
	}
	hookWorld, err := buildWorld(h, subs, hookSize, 1)
	if err != nil {
		t.Fatal(err)
	}
	r.Set("histories", len(sizes))
	r.Set("largest_history", largest)

	// the stored bytes are the RFC 6962 encodings of the submissions
	for _, s := range sizes {
		w := worlds[s]
		for i, st := range w.stored {
			r.Eval(1)
			sb := w.subs[i]
			if !bytes.Equal(st.leaf, sb.refLeaf()) {
				r.Violation("stored leaf differs from the RFC 6962 MerkleTreeLeaf of the submission kind="+kindOf(sb), fmt.Sprintf("tree %d index %d (%s): stored %s, reference %s", s, i, sb.label, rep.Hex(st.leaf), rep.Hex(sb.refLeaf())),
					map[string]any{"tree_size": s, "index": i, "shape": sb.label, "submitted": hexAll(sb.submitted)})
			}
			if !bytes.Equal(st.extra, sb.refExtra()) {
				r.Violation("stored extra data differs from the RFC 6962 chain encoding of the submission kind="+kindOf(sb), fmt.Sprintf("tree %d index %d (%s): stored %s, reference %s", s, i, sb.label, rep.Hex(st.extra), rep.Hex(sb.refExtra())),
					map[string]any{"tree_size": s, "index": i, "shape": sb.label})
			}
		}
	}

	// ---- configurations, sequentially (the knobs are process-global)
	defer func(m int64) { ctfe.MaxGetEntriesAllowed = m; flag.Set("align_getentries", "true") }(ctfe.MaxGetEntriesAllowed)
	eapDone := map[int]bool{}
	capped := false
	for _, m := range maxes {
		for _, al := range []bool{true, false} {
			cfg := config{m, al}
			cfg.apply()
			for _, size := range sizesFor(m) {
				if capped {
					break
				}
				w := worlds[size]
				sq := int64(-1)
				if m <= squareMax {
					sq = 3*m + 2
				}
				cs := cases(m, size, sq, th)
				for _, l := range w.logs {
					l.ResetCalls()
				}
				k.glbrSeen.Store(0)
				done := enum.ParFor(len(cs), r.Expired, func(i int) {
					pan, msg, stack := enum.Catch(func() { k.runCase(cfg, w, cs[i]) })
					if pan {
						r.Violation("harness-panic", msg+"\n"+stack, k.desc(cfg, w, cs[i], "", "", "", ""))
					}
				})
				if !done {
					r.Capped("deadline reached before all (config, tree size, start, end) cases were run")
					capped = true
				}
				k.methodCheck(cfg, w)
				// the shared reference log recorded the same number of range reads as the per-worker recorders
				n := 0
				for _, l := range w.logs {
					n += len(l.CallsOf("GetLeavesByRange"))
				}
				if int64(n) != k.glbrSeen.Load() {
					r.Violation("harness: recorder mismatch", fmt.Sprintf("%s tree=%d: reflog recorded %d GetLeavesByRange, the per-worker recorders %d", cfg, size, n, k.glbrSeen.Load()), nil)
				}
				r.Add("requests", int64(len(cs)))
				if !eapDone[size] && !capped {
					eapDone[size] = true
					var idxs []int
					for i := 0; i < size; i++ {
						if size <= 128 || i%97 == 0 || i < 3 || i >= size-3 || (int64(i)+1)%m <= 1 {
							idxs = append(idxs, i)
						}
					}
					enum.ParFor(len(idxs), nil, func(i int) { k.entryAndProof(cfg, w, idxs[i]) })
				}
			}
			if !capped {
				if big := worlds[int(2*m+1)]; big != nil && m >= 100 {
					k.concurrentPhase(cfg, big)
				}
				k.hookPhase(cfg, hookWorld)
				k.disconnectPhase(cfg, worlds[5])
			}
		}
	}
	r.Finish()
}

func hexAll(bs [][]byte) []string {
	var out []string
	for _, b := range bs {
		out = append(out, rep.Hex(b))
	}
	return out
}
