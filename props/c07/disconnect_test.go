//go:build verif

package c07

// The disconnecting-client pass: a response whose body write fails (or is
// reported short) must not influence any later response. For each
// configuration, on one front end and from one goroutine, a request is served
// to a ResponseWriter that stops accepting bytes, and is followed back to back
// by ordinary requests whose status, backend request and bytes must be exactly
// the fault-free ones. The pass runs with GOMAXPROCS(1) and the collector off
// so that per-P caches (sync.Pool) are reused deterministically.

import (
	"bytes"
	"context"
	"errors"
	"fmt"
	"net/http"
	"net/http/httptest"
	"net/url"
	"runtime"
	"runtime/debug"
	"strings"

	"verif/engine/enum"
	"verif/ref/fe"
	"verif/ref/reflog"
)

var errClientGone = errors.New("write tcp: broken pipe (client disconnected)")

// faultWriter accepts limit bytes in total; after that every Write fails with
// an error, or (short) reports fewer bytes written than given without error.
type faultWriter struct {
	hdr    http.Header
	status int
	limit  int
	short  bool
	got    []byte
	failed bool
}

func (f *faultWriter) Header() http.Header { return f.hdr }
func (f *faultWriter) WriteHeader(s int) {
	if f.status == 0 {
		f.status = s
	}
}
func (f *faultWriter) Write(p []byte) (int, error) {
	if f.status == 0 {
		f.status = http.StatusOK
	}
	room := f.limit - len(f.got)
	if room >= len(p) {
		f.got = append(f.got, p...)
		return len(p), nil
	}
	if room < 0 {
		room = 0
	}
	f.got = append(f.got, p[:room]...)
	f.failed = true
	if f.short {
		return room, nil
	}
	return room, errClientGone
}

// serve is fe.Do with a caller-supplied ResponseWriter.
func serve(f *fe.FE, path string, q url.Values, w http.ResponseWriter) {
	h := f.Inst.Handlers[f.Prefix+path]
	req := httptest.NewRequest(http.MethodGet, "http://log.example"+f.Prefix+path+"?"+q.Encode(), nil)
	h.ServeHTTP(w, req)
}

// probe is one request of the pass with its fault-free answer.
type probe struct {
	kind string // coarse kind for signatures
	name string
	path string
	q    url.Values
	c    *rcase // get-entries: the case for the semantic oracle
	idx  int    // get-entry-and-proof: leaf index (tree size = size of the log)
	// fault-free reference, captured at the start of the phase
	status int
	body   []byte
	calls  []reflog.Call
}

func geProbe(kind string, s, e int64) *probe {
	c := rcase{num(bi(s)), num(bi(e)), true}
	return &probe{kind: kind, name: fmt.Sprintf("get-entries?start=%d&end=%d", s, e), path: getEntriesPath,
		q: url.Values{"start": {fmt.Sprint(s)}, "end": {fmt.Sprint(e)}}, c: &c}
}

func eapProbe(idx, size int) *probe {
	return &probe{kind: "get-entry-and-proof", name: fmt.Sprintf("get-entry-and-proof?leaf_index=%d&tree_size=%d", idx, size), path: entryAndProofPath,
		q: url.Values{"leaf_index": {fmt.Sprint(idx)}, "tree_size": {fmt.Sprint(size)}}, idx: idx}
}

type wmode struct {
	name  string
	short bool
	at    func(n int) int // bytes accepted, given the length of the fault-free body
}

func writerModes(thorough bool) []wmode {
	ms := []wmode{
		{"write error after 0 bytes", false, func(int) int { return 0 }},
		{"write error after 1 byte", false, func(int) int { return 1 }},
		{"write error after half of the body", false, func(n int) int { return n / 2 }},
		{"short write (0 bytes, no error)", true, func(int) int { return 0 }},
		{"short write (half of the body, no error)", true, func(n int) int { return n / 2 }},
	}
	if thorough {
		ms = append(ms,
			wmode{"write error one byte before the end", false, func(n int) int { return n - 1 }},
			wmode{"write error after 7 bytes", false, func(int) int { return 7 }},
			wmode{"short write (1 byte, no error)", true, func(int) int { return 1 }},
			wmode{"short write (all but one byte, no error)", true, func(n int) int { return n - 1 }})
	}
	return ms
}

// disconnectPhase runs the pass for one configuration on the 5-leaf history.
func (k *checker) disconnectPhase(cfg config, w *world) {
	prevProcs := runtime.GOMAXPROCS(1)
	prevGC := debug.SetGCPercent(-1)
	k.sfx = " [after a failed response write]"
	defer func() {
		k.sfx = ""
		debug.SetGCPercent(prevGC)
		runtime.GOMAXPROCS(prevProcs)
	}()
	x := w.get()
	defer w.put(x)
	size := int64(w.size)

	victims := []*probe{
		geProbe("get-entries (200)", 0, 0),
		geProbe("get-entries (200)", 1, 3),
		geProbe("get-entries (200)", 0, size+1),
		geProbe("get-entries (4xx, start beyond the tree)", size, size+4),
		geProbe("get-entries (4xx, invalid range)", 3, 1),
		eapProbe(2, w.size),
	}
	diff := geProbe("get-entries (200)", 2, 4)
	other := eapProbe(3, w.size)
	bad := geProbe("get-entries (4xx, invalid range)", 4, 2)
	all := append(append([]*probe{}, victims...), diff, other, bad)

	// ---- fault-free references, each judged by the ordinary oracle first
	for _, p := range all {
		k.judge(cfg, w, x, p)
		x.rec.take()
		var rsp fe.Resp
		pan, msg, stack := enum.Catch(func() { rsp = x.f.Do(context.Background(), http.MethodGet, p.path, p.q, nil) })
		p.calls = x.rec.take()
		k.countGLBR(p.calls)
		if pan {
			k.viol("panic in "+p.kind+" handler", msg+"\n"+stack, p.name)
			return
		}
		p.status, p.body = rsp.Status, rsp.Body
	}

	// follow-up sequences: S = the failed request again, D = another get-entries range,
	// P = get-entry-and-proof, E = an invalid get-entries request
	seqs := []string{"S", "D", "P", "PD", "DSP", "SPD"}
	if k.r.Thorough() {
		seqs = append(seqs, "E", "ES", "PPS", "DD", "EPD", "SSS")
	}
	for _, v := range victims {
		for _, m := range writerModes(k.r.Thorough()) {
			limit := m.at(len(v.body))
			if limit < 0 || limit >= len(v.body) {
				continue // the body would be written completely: no fault
			}
			for _, sq := range seqs {
				k.r.Eval(1)
				k.r.Add("disconnect_sequences", 1)
				k.r.Nontrivial(fmt.Sprintf("disc|%s|%s|%s|%s", cfg, v.name, m.name, sq))
				fw := &faultWriter{hdr: http.Header{}, limit: limit, short: m.short}
				x.rec.take()
				pan, msg, stack := enum.Catch(func() { serve(x.f, v.path, v.q, fw) })
				calls := x.rec.take()
				k.countGLBR(calls)
				d := map[string]any{"config": cfg.String(), "tree_size": w.size, "failed_request": v.name, "writer": m.name, "bytes_accepted": len(fw.got),
					"fault_free_body_length": len(v.body), "follow_ups": sq, "backend_calls_seen": showCalls(calls)}
				if pan {
					k.viol("panic in "+v.kind+" handler when the response write fails", msg+"\n"+stack, d)
					continue
				}
				if !fw.failed {
					k.viol("harness: the scripted write fault did not occur", fmt.Sprintf("%s %s %s: %d bytes accepted of a %d-byte body", cfg, v.name, m.name, len(fw.got), len(v.body)), d)
				}
				if !sameRequest(calls, v.calls) {
					k.viol("backend request of a request whose response write fails differs from the fault-free one: "+v.kind, fmt.Sprintf("%s %s %s: %s, fault-free %s", cfg, v.name, m.name, showCalls(calls), showCalls(v.calls)), d)
				}
				if !m.short && !bytes.Equal(fw.got, v.body[:limit]) {
					k.viol("bytes written before the write fault are not a prefix of the fault-free body: "+v.kind, fmt.Sprintf("%s %s %s: wrote %q, fault-free body starts %q", cfg, v.name, m.name, clip(fw.got), clip(v.body[:limit])), d)
				}
				// follow-ups, back to back from this goroutine
				for pos, ch := range sq + "dp" { // every sequence ends with a get-entries and a get-entry-and-proof request
					var p *probe
					switch ch {
					case 'S':
						p = v
					case 'D', 'd':
						p = diff
					case 'P', 'p':
						p = other
					case 'E':
						p = bad
					}
					k.followUp(cfg, w, x, v, m, sq, pos, p)
				}
			}
		}
	}
}

func clip(b []byte) string {
	if len(b) > 120 {
		return string(b[:120]) + "…"
	}
	return string(b)
}

// judge applies the ordinary (fault-free) oracle to one probe.
func (k *checker) judge(cfg config, w *world, x *cx, p *probe) {
	if p.c != nil {
		k.runCaseOn(cfg, w, x, *p.c)
	} else {
		k.entryAndProofOn(cfg, w, x, p.idx)
	}
}

// followUp issues one ordinary request after a failed one: its status, backend
// request and body must be those of the fault-free reference, and the ordinary
// oracle must hold for it as well.
func (k *checker) followUp(cfg config, w *world, x *cx, v *probe, m wmode, sq string, pos int, p *probe) {
	k.r.Eval(1)
	k.r.Add("disconnect_follow_up_requests", 1)
	x.rec.take()
	var rsp fe.Resp
	pan, msg, stack := enum.Catch(func() { rsp = x.f.Do(context.Background(), http.MethodGet, p.path, p.q, nil) })
	calls := x.rec.take()
	k.countGLBR(calls)
	d := map[string]any{"config": cfg.String(), "tree_size": w.size, "failed_request": v.name, "writer": m.name, "follow_ups": sq, "follow_up_number": pos + 1,
		"follow_up": p.name, "library": fmt.Sprintf("HTTP %d %s", rsp.Status, clip(rsp.Body)), "oracle": fmt.Sprintf("HTTP %d %s", p.status, clip(p.body)),
		"backend_calls_seen": showCalls(calls), "backend_calls_fault_free": showCalls(p.calls)}
	where := fmt.Sprintf("%s: %s served to a writer with %s, then follow-up %d of %q = %s", cfg, v.name, m.name, pos+1, sq, p.name)
	if pan {
		k.viol("panic in "+p.kind+" handler", msg+"\n"+stack, d)
		return
	}
	if rsp.Status != p.status || !bytes.Equal(rsp.Body, p.body) {
		extra := ""
		if len(rsp.Body) > len(p.body) && bytes.HasSuffix(rsp.Body, p.body) {
			lead := rsp.Body[:len(rsp.Body)-len(p.body)]
			extra = fmt.Sprintf("; the fault-free body is preceded by %d foreign bytes", len(lead))
			if bytes.HasSuffix(v.body, lead) {
				extra += ", which are the unwritten tail of the failed response"
			}
		}
		k.viol("answer to "+p.kind+" following a failed "+strings.SplitN(v.kind, " (", 2)[0]+" write differs from the fault-free answer",
			fmt.Sprintf("%s: HTTP %d with %d body bytes, fault-free HTTP %d with %d bytes%s", where, rsp.Status, len(rsp.Body), p.status, len(p.body), extra), d)
	}
	if !sameRequest(calls, p.calls) {
		k.viol("backend request of "+p.kind+" following a failed write differs from the fault-free one", fmt.Sprintf("%s: %s, fault-free %s", where, showCalls(calls), showCalls(p.calls)), d)
	}
	// the ordinary oracle (stored bytes, request arithmetic, client, decoding) on the same request
	k.judge(cfg, w, x, p)
}
