//go:build verif

package c07

import (
	"context"
	"crypto/sha256"
	"fmt"
	"net/http"
	"sync"
	"time"

	"verif/ref/ct6962"
	"verif/ref/fe"
	"verif/ref/pki"
	"verif/ref/reflog"

	"github.com/google/certificate-transparency-go/client"
	"github.com/google/certificate-transparency-go/jsonclient"
	"github.com/google/trillian"
	"google.golang.org/grpc"
	"google.golang.org/protobuf/proto"
)

// sub is one submission with its ground truth. Everything the oracle compares
// with comes from the templates (ref/pki), never from parsing DER.
type sub struct {
	label     string
	pre       bool
	leaf      *pki.Cert   // the submitted certificate or precertificate
	issuers   []*pki.Cert // issuing path after the leaf, up to and including the trusted root
	submitted [][]byte    // what is posted (the root is omitted in some shapes)
	tsMillis  uint64      // clock of the front end at submission
	// precertificate entries only
	wantTBS []byte   // TBSCertificate without poison (issuer / AKI of the final issuer if a pre-issuer signed)
	wantIKH [32]byte // SHA-256 of the final issuer's SubjectPublicKeyInfo
}

func (s *sub) chainDER() [][]byte { return pki.DERs(s.issuers...) }

// refLeaf is the RFC 6962 s3.4 encoding of the entry, refExtra the s4.6 extra_data.
func (s *sub) refLeaf() []byte {
	e := ct6962.TimestampedEntry{Timestamp: s.tsMillis}
	if s.pre {
		e.SignedEntry = ct6962.SignedEntry{EntryType: ct6962.PrecertEntry, IssuerKeyHash: s.wantIKH, TBS: s.wantTBS}
	} else {
		e.SignedEntry = ct6962.SignedEntry{EntryType: ct6962.X509Entry, Cert: s.leaf.DER}
	}
	b, err := ct6962.AppendMerkleTreeLeaf(nil, ct6962.MerkleTreeLeaf{Version: ct6962.V1, LeafType: ct6962.TimestampedEntryLeaf, Entry: e})
	if err != nil {
		panic(err)
	}
	return b
}

func (s *sub) refExtra() []byte {
	var b []byte
	var err error
	if s.pre {
		b, err = ct6962.AppendPrecertChainEntry(nil, ct6962.PrecertChainEntry{PreCertificate: s.leaf.DER, Chain: s.chainDER()})
	} else {
		b, err = ct6962.AppendCertificateChain(nil, s.chainDER())
	}
	if err != nil {
		panic(err)
	}
	return b
}

func keyID(k *pki.Key) []byte { h := k.KeyHash(); return h[:20] }

// hierarchy: two trusted roots, intermediates of four key types, a pre-issuer.
type hierarchy struct {
	R, R2, I1, I2, P, J *pki.Cert
}

func newHierarchy() *hierarchy {
	h := &hierarchy{}
	h.R = pki.NewRoot("C07 root", pki.LoadKey("p256-0"))
	h.R2 = pki.NewRoot("C07 root two", pki.LoadKey("rsa2048-0"))
	h.I1 = pki.NewCA("C07 I1", pki.LoadKey("p384-0"), h.R, pki.CAOpts{})
	h.I2 = pki.NewCA("C07 I2", pki.LoadKey("p256-1"), h.I1, pki.CAOpts{})
	h.P = pki.NewCA("C07 pre-issuer", pki.LoadKey("p256-2"), h.I1, pki.CAOpts{EKUs: [][]int{pki.OIDEKUCT}})
	h.J = pki.NewCA("C07 J", pki.LoadKey("ed25519-0"), h.R2, pki.CAOpts{})
	return h
}

func pathTo(c *pki.Cert) []*pki.Cert {
	var out []*pki.Cert
	for p := c; p != nil; p = p.Parent {
		out = append(out, p)
	}
	return out
}

// timestamps of the first submissions are boundary values; the rest are spread.
func tsFor(i int) time.Time {
	switch i {
	case 0:
		return time.Unix(0, 0)
	case 1:
		return time.Unix(0, 1e6) // 1 ms
	case 2:
		return time.UnixMilli(1 << 32)
	case 3:
		return time.Unix(0, 1<<63-1) // the largest instant UnixNano can express
	case 4:
		return time.UnixMilli(1<<32 - 1)
	}
	return time.UnixMilli(1700000000123 + int64(i)*1001)
}

const nShapes = 10

// mkSub builds submission i. The shape cycles so that every window of ten
// consecutive indices holds every entry kind.
func (h *hierarchy) mkSub(i int) *sub {
	cn := fmt.Sprintf("e%d", i)
	serial := []byte{0x10, byte(i >> 16), byte(i >> 8), byte(i)}
	s := &sub{tsMillis: uint64(tsFor(i).UnixNano() / 1e6)}
	leafKey := pki.LoadKey("p256-3")
	var parent *pki.Cert
	withRoot := false
	var extra []pki.Ext
	shape := i % nShapes
	if i == nShapes || i == 2*nShapes-1 {
		// a trusted root submitted on its own: a validated path of length one, stored with an empty chain
		s.leaf = h.R
		s.label = "root certificate on its own"
		if i != nShapes {
			s.leaf, s.label = h.R2, "root certificate (rsa) on its own"
		}
		s.submitted = [][]byte{s.leaf.DER}
		return s
	}
	switch shape {
	case 0:
		s.label, parent = "cert<-root, root omitted", h.R
	case 1:
		s.label, parent, s.pre, withRoot = "precert<-I1(p384), root sent", h.I1, true, true
	case 2:
		s.label, parent = "cert<-I2<-I1, root omitted", h.I2
	case 3:
		s.label, parent, s.pre = "precert<-pre-issuer<-I1, root omitted", h.P, true
	case 4:
		s.label, parent, withRoot = "rsa cert<-J(ed25519)<-R2(rsa), root sent", h.J, true
		leafKey = pki.LoadKey("rsa2048-1")
		if (i/nShapes)%2 == 1 {
			// a certificate the lenient parser accepts with a non-fatal remark (RSA key without NULL
			// parameters): it is logged like any other and must decode like any other
			s.label = "rsa cert with a parser-remark (spki without NULL)<-J(ed25519)<-R2(rsa), root sent"
			leafKey = pki.LoadKey("rsa2048-1~nonull")
		}
	case 5:
		s.label, parent, s.pre = "precert<-root, root omitted", h.R, true
	case 6:
		s.label, parent, withRoot = "cert<-I1 with large extension", h.I1, true
		n := 300
		if i < 2*nShapes {
			n = 70000 // leaf_input longer than 65535 bytes
		}
		big := make([]byte, n)
		for k := range big {
			big[k] = byte(k*7 + i)
		}
		extra = append(extra, pki.ExtUnknown(21, false, big))
	case 7:
		s.label, parent = "cert<-I1 with embedded SCT list", h.I1
		sct := make([]byte, 47+70)
		for k := range sct {
			sct[k] = byte(k + i)
		}
		sct[0] = 0
		list, err := ct6962.AppendSCTList(nil, [][]byte{sct})
		if err != nil {
			panic(err)
		}
		extra = append(extra, pki.ExtSCTList(list))
	case 8:
		s.label, parent, s.pre, withRoot = "precert<-J(ed25519), root sent", h.J, true, true
	case 9:
		s.label, parent = "ed25519 cert<-R2(rsa), root omitted", h.R2
		leafKey = pki.LoadKey("ed25519-1")
	}
	exts := []pki.Ext{pki.ExtSAN(cn + ".c07.example"), pki.ExtAKI(keyID(parent.T.Key))}
	if s.pre {
		// poison between other extensions: removing it must keep the order of the rest
		exts = append(exts, pki.ExtPoison())
	}
	exts = append(exts, extra...)
	exts = append(exts, pki.ExtUnknown(7, false, []byte{0x05, 0x00}))
	s.leaf = pki.NewLeaf(cn, leafKey, parent, pki.LeafOpts{Exts: exts, Serial: serial})
	s.issuers = pathTo(parent)
	chain := append([]*pki.Cert{s.leaf}, s.issuers...)
	if !withRoot {
		chain = chain[:len(chain)-1]
	}
	s.submitted = pki.DERs(chain...)
	if s.pre {
		final := parent
		t := s.leaf.T // copy
		var ne []pki.Ext
		for _, e := range t.Exts {
			if e.Label == "poison" {
				continue
			}
			ne = append(ne, e)
		}
		if parent == h.P {
			// RFC 6962 s3.2: issuer name and authority key identifier of the final issuer
			final = h.P.Parent
			t.Issuer = h.P.T.Issuer
			for k := range ne {
				if ne[k].Label == "aki" {
					ne[k] = pki.ExtAKI(keyID(final.T.Key))
				}
			}
		}
		t.Exts = ne
		s.wantTBS = t.TBS(s.leaf.Signer.SigAlgDER())
		s.wantIKH = sha256.Sum256(final.T.Key.SPKI)
	}
	return s
}

// stored is what the reference backend holds for one index.
type stored struct {
	leaf  []byte
	extra []byte
}

// world is one populated log (a history): subs[0..size) submitted in order
// through add-chain / add-pre-chain of a real front end and then integrated.
type world struct {
	size   int
	log    *reflog.Log   // populated through the front end
	logs   []*reflog.Log // log and, for large histories, its replicas
	subs   []*sub
	stored []stored
	decode []sync.Once // decode oracle evaluated once per index on bytes proven equal to stored
	signer *pki.Key
	roots  [][]byte
	pool   chan *cx
}

// cx is a per-worker front end over a per-worker call recorder.
type cx struct {
	rec *recClient
	f   *fe.FE
	lc  *client.LogClient
}

func (w *world) get() *cx  { return <-w.pool }
func (w *world) put(c *cx) { w.pool <- c }

func (w *world) newFE(client trillian.TrillianLogClient, clk *fe.Clock) *fe.FE {
	f, err := fe.New(fe.Config{LogID: w.log.TreeID, Prefix: "log", Roots: w.roots, Signer: w.signer.Priv, Client: client, Clock: clk})
	if err != nil {
		panic(err)
	}
	return f
}

const treeID = 7007

func buildWorld(h *hierarchy, subs []*sub, size, workers int) (*world, error) {
	w := &world{size: size, log: reflog.New(treeID), subs: subs[:size], signer: pki.LoadKey("p256-6"), roots: pki.DERs(h.R, h.R2)}
	clk := &fe.Clock{T: time.Unix(1, 0)}
	f := w.newFE(w.log, clk)
	for i, s := range w.subs {
		clk.Set(tsFor(i))
		rsp, _ := f.AddChain(s.pre, s.submitted)
		if rsp.Status != 200 {
			return nil, fmt.Errorf("submission %d (%s) refused: HTTP %d %s", i, s.label, rsp.Status, rsp.Body)
		}
		if i%3 == 2 { // integrate in several batches
			w.log.Sequence(-1, uint64(1700000000000000000+i))
		}
	}
	w.log.Sequence(-1, 1800000000000000000)
	if w.log.Size() != size {
		return nil, fmt.Errorf("world of %d submissions has %d integrated leaves", size, w.log.Size())
	}
	for i := 0; i < size; i++ {
		lf := w.log.Leaf(i)
		w.stored = append(w.stored, stored{leaf: lf.LeafValue, extra: lf.ExtraData})
	}
	w.decode = make([]sync.Once, size)
	// The reference log serialises its requests (and recomputes the tree head for each); large
	// histories are therefore replicated: every replica is fed the very leaves the front end
	// queued (value, extra data, identity hash) in index order and must hold identical bytes.
	w.logs = []*reflog.Log{w.log}
	if size > 64 {
		for len(w.logs) < 8 && len(w.logs) < workers {
			l := reflog.New(treeID)
			for i := 0; i < size; i++ {
				lf := w.log.Leaf(i)
				if _, err := l.QueueLeaf(context.Background(), &trillian.QueueLeafRequest{LogId: treeID,
					Leaf: &trillian.LogLeaf{LeafValue: lf.LeafValue, ExtraData: lf.ExtraData, LeafIdentityHash: lf.LeafIdentityHash}}); err != nil {
					return nil, err
				}
			}
			l.Sequence(-1, 1800000000000000000)
			for i := 0; i < size; i++ {
				a, b := l.Leaf(i), w.log.Leaf(i)
				if l.Size() != size || !proto.Equal(a, b) {
					return nil, fmt.Errorf("replica of the %d-leaf history differs at index %d", size, i)
				}
			}
			l.ResetCalls()
			w.logs = append(w.logs, l)
		}
	}
	w.pool = make(chan *cx, workers)
	for k := 0; k < workers; k++ {
		rec := &recClient{Log: w.logs[k%len(w.logs)]}
		f := w.newFE(rec, &fe.Clock{T: time.Unix(1900000000, 0)})
		lc, err := client.New("http://log.example/log", &http.Client{Transport: fe.RoundTripper{F: f}}, jsonclient.Options{Logger: nolog{}})
		if err != nil {
			return nil, err
		}
		w.pool <- &cx{rec: rec, f: f, lc: lc}
	}
	w.log.ResetCalls()
	return w, nil
}

// recClient records the backend calls of one front end instance (one worker)
// and forwards them to the shared reference log, which records them as well.
type recClient struct {
	*reflog.Log
	mu    sync.Mutex
	calls []reflog.Call
}

func (c *recClient) note(m string, req proto.Message) {
	c.mu.Lock()
	c.calls = append(c.calls, reflog.Call{Method: m, Req: proto.Clone(req)})
	c.mu.Unlock()
}

// take returns and clears the recorded calls.
func (c *recClient) take() []reflog.Call {
	c.mu.Lock()
	defer c.mu.Unlock()
	out := c.calls
	c.calls = nil
	return out
}

func (c *recClient) QueueLeaf(ctx context.Context, in *trillian.QueueLeafRequest, o ...grpc.CallOption) (*trillian.QueueLeafResponse, error) {
	c.note("QueueLeaf", in)
	return c.Log.QueueLeaf(ctx, in, o...)
}
func (c *recClient) GetInclusionProof(ctx context.Context, in *trillian.GetInclusionProofRequest, o ...grpc.CallOption) (*trillian.GetInclusionProofResponse, error) {
	c.note("GetInclusionProof", in)
	return c.Log.GetInclusionProof(ctx, in, o...)
}
func (c *recClient) GetInclusionProofByHash(ctx context.Context, in *trillian.GetInclusionProofByHashRequest, o ...grpc.CallOption) (*trillian.GetInclusionProofByHashResponse, error) {
	c.note("GetInclusionProofByHash", in)
	return c.Log.GetInclusionProofByHash(ctx, in, o...)
}
func (c *recClient) GetConsistencyProof(ctx context.Context, in *trillian.GetConsistencyProofRequest, o ...grpc.CallOption) (*trillian.GetConsistencyProofResponse, error) {
	c.note("GetConsistencyProof", in)
	return c.Log.GetConsistencyProof(ctx, in, o...)
}
func (c *recClient) GetLatestSignedLogRoot(ctx context.Context, in *trillian.GetLatestSignedLogRootRequest, o ...grpc.CallOption) (*trillian.GetLatestSignedLogRootResponse, error) {
	c.note("GetLatestSignedLogRoot", in)
	return c.Log.GetLatestSignedLogRoot(ctx, in, o...)
}
func (c *recClient) GetEntryAndProof(ctx context.Context, in *trillian.GetEntryAndProofRequest, o ...grpc.CallOption) (*trillian.GetEntryAndProofResponse, error) {
	c.note("GetEntryAndProof", in)
	return c.Log.GetEntryAndProof(ctx, in, o...)
}
func (c *recClient) InitLog(ctx context.Context, in *trillian.InitLogRequest, o ...grpc.CallOption) (*trillian.InitLogResponse, error) {
	c.note("InitLog", in)
	return c.Log.InitLog(ctx, in, o...)
}
func (c *recClient) GetLeavesByRange(ctx context.Context, in *trillian.GetLeavesByRangeRequest, o ...grpc.CallOption) (*trillian.GetLeavesByRangeResponse, error) {
	c.note("GetLeavesByRange", in)
	return c.Log.GetLeavesByRange(ctx, in, o...)
}
func (c *recClient) AddSequencedLeaves(ctx context.Context, in *trillian.AddSequencedLeavesRequest, o ...grpc.CallOption) (*trillian.AddSequencedLeavesResponse, error) {
	c.note("AddSequencedLeaves", in)
	return c.Log.AddSequencedLeaves(ctx, in, o...)
}

var _ trillian.TrillianLogClient = (*recClient)(nil)
