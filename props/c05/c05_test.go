// C05 — signature verification accepts exactly the valid log signatures.
//
// Engine B (bounded-exhaustive enumeration). Every case is decided twice: by the
// library (tls.VerifySignature, ct.SignatureVerifier, loglist3.NewFromSignedJSON,
// ctutil.VerifySCT, ctutil.LogInfo) and by the reference in ref_test.go, which
// builds the signed bytes with hand-written RFC 6962 / RFC 5246 encoders, reads
// (r, s) with its own strict DER reader and asks the Go standard library's
// primitives. Any disagreement in accept/reject, any panic, and any deviation
// from the stated verifier-construction policy is a violation.
package c05

import (
	"bytes"
	"crypto"
	"crypto/dsa"
	"crypto/ecdh"
	"crypto/ecdsa"
	"crypto/rand"
	"crypto/rsa"
	"crypto/sha256"
	"encoding/base64"
	"fmt"
	"io"
	"log"
	"math/big"
	"sort"
	"strings"
	"sync"
	"sync/atomic"
	"testing"
	"time"

	"verif/engine/enum"
	"verif/engine/rep"

	ct "github.com/google/certificate-transparency-go"
	"github.com/google/certificate-transparency-go/ctutil"
	"github.com/google/certificate-transparency-go/loglist3"
	"github.com/google/certificate-transparency-go/tls"
	"github.com/google/certificate-transparency-go/x509"
)

type checker struct {
	r       *rep.R
	keys    []*key
	by      map[string]*key
	ver     map[string]*ct.SignatureVerifier // one per key; built by NewSignatureVerifier where the policy (with opt-in) allows, else a struct literal
	certs   map[string][]byte
	hmu     sync.Mutex
	honest  map[string][]byte
	sampled sync.Map
	perAPI  sync.Map // api -> *[2]atomic.Int64 {cases, cases the reference accepts}
}

// layer names the library layer an entry point belongs to; violation signatures
// carry the layer (coarse), case descriptions the exact entry point.
func layer(api string) string {
	switch {
	case strings.HasPrefix(api, "tls."), strings.HasPrefix(api, "SignatureVerifier."):
		return "tls"
	case strings.HasPrefix(api, "VerifySCTSignature"):
		return "sct"
	case strings.HasPrefix(api, "VerifySTHSignature"):
		return "sth"
	case strings.HasPrefix(api, "NewFromSignedJSON"):
		return "loglist"
	}
	return "ctutil"
}

func coarse(family string) string {
	switch {
	case strings.HasPrefix(family, "unsigned:"):
		return "unsigned-field"
	case strings.HasPrefix(family, "pair:"):
		return "two-mutations"
	}
	return family
}

func (c *checker) count(api string, accept bool) {
	v, ok := c.perAPI.Load(api)
	if !ok {
		v, _ = c.perAPI.LoadOrStore(api, new([2]atomic.Int64))
	}
	a := v.(*[2]atomic.Int64)
	a[0].Add(1)
	if accept {
		a[1].Add(1)
	}
}

// caseDesc is the written-out form of one case (violations, samples).
type caseDesc struct {
	API     string `json:"api"`
	Family  string `json:"family"`
	Key     string `json:"key"`
	Hash    int    `json:"hash_code"`
	Sig     int    `json:"signature_code"`
	Data    string `json:"signed_bytes_hex,omitempty"`
	Value   string `json:"signature_value_hex,omitempty"`
	Note    string `json:"note,omitempty"`
	Library string `json:"library"`
	Ref     string `json:"reference"`
}

func pat(n int, seed byte) []byte {
	b := make([]byte, n)
	for i := range b {
		b[i] = seed + byte(i)*7
	}
	return b
}

func clone(b []byte) []byte { return append([]byte{}, b...) }

func flip(b []byte, bit int) []byte {
	c := clone(b)
	c[bit/8] ^= 0x80 >> uint(bit%8)
	return c
}

// judge compares the library's verdict with the reference's for one case.
func (c *checker) judge(api, family string, k *key, h, s uint8, data, sig []byte, stage string, call func() error, note string) {
	var lerr error
	pan, msg, stack := enum.Catch(func() { lerr = call() })
	c.r.Eval(1)
	c.count(api, stage == stAccept)
	if reached(stage) {
		hd := sha256.Sum256(data)
		hs := sha256.Sum256(sig)
		c.r.Nontrivial(fmt.Sprintf("%s|%s|%s|%d|%d|%x|%x|%s", api, family, k.name, h, s, hd[:8], hs[:8], note))
	}
	desc := func() caseDesc {
		lib := "accept"
		if pan {
			lib = "panic: " + msg
		} else if lerr != nil {
			lib = "error: " + lerr.Error()
		}
		return caseDesc{API: api, Family: family, Key: k.name, Hash: int(h), Sig: int(s), Data: rep.Hex(data), Value: rep.Hex(sig), Note: note, Library: lib, Ref: stage}
	}
	// One known way to disagree gets its own coarse signature whatever the API or mutation: a DSA
	// key whose subgroup is shorter than the digest (FIPS 186-3 4.6 truncation of the digest).
	if dk, ok := k.pub.(*dsa.PublicKey); ok && !pan && s == 2 && h >= 1 && h <= 6 {
		if d, _, _ := refHash(h, nil); len(d) > (dk.Q.BitLen()+7)/8 && (lerr == nil) != (stage == stAccept) {
			verdict := "valid-rejected"
			if lerr == nil {
				verdict = "invalid-accepted"
			}
			c.r.Violation("dsa-digest-longer-than-subgroup: "+verdict,
				fmt.Sprintf("%s with a DSA key (q of %d bits) and hash code %d (%d-byte digest): library err=%v, reference %s; FIPS 186-3 4.6 signs the leftmost min(N, outlen) bits of the digest. %s signed=%s sig=%s",
					api, dk.Q.BitLen(), h, len(d), lerr, stage, note, rep.Hex(data), rep.Hex(sig)), desc())
			return
		}
	}
	switch {
	case pan:
		c.r.Violation(layer(api)+": panic mut="+coarse(family), fmt.Sprintf("%s panicked (%s) key=%s codes=(%d,%d) %s\n%s", api, msg, k.name, h, s, note, stack), desc())
	case lerr == nil && stage != stAccept:
		c.r.Violation(layer(api)+": invalid-accepted ref="+stage+" mut="+coarse(family),
			fmt.Sprintf("%s returned nil but the reference rejects (%s): key=%s codes=(%d,%d) %s signed=%s sig=%s", api, stage, k.name, h, s, note, rep.Hex(data), rep.Hex(sig)), desc())
	case lerr != nil && stage == stAccept:
		c.r.Violation(layer(api)+": valid-rejected mut="+coarse(family),
			fmt.Sprintf("%s returned %q but the reference accepts: key=%s codes=(%d,%d) %s signed=%s sig=%s", api, lerr, k.name, h, s, note, rep.Hex(data), rep.Hex(sig)), desc())
	default:
		// written-out examples: the first accepted and the first primitive-rejected case of each layer
		if (stage == stAccept || stage == stPrimitive) && family != "codes" {
			if _, dup := c.sampled.LoadOrStore(layer(api)+stage, true); !dup {
				c.r.Sample(desc())
			}
		}
	}
}

// honestSig returns (cached) the signature of key k under hash code h over data.
func (c *checker) honestSig(k *key, h uint8, data []byte) []byte {
	d := sha256.Sum256(data)
	id := fmt.Sprintf("%s|%d|%x", k.name, h, d)
	c.hmu.Lock()
	s, ok := c.honest[id]
	c.hmu.Unlock()
	if ok {
		return s
	}
	s = sign(k.priv, h, data)
	if k.code != 0 {
		if st := refVerify(k.pub, h, k.code, data, s); st != stAccept {
			panic(fmt.Sprintf("harness bug: the standard library does not accept an honest %s signature (hash %d): %s", k.name, h, st))
		}
	}
	c.hmu.Lock()
	c.honest[id] = s
	c.hmu.Unlock()
	return s
}

// ---------------------------------------------------------------------------
// Phase 1: construction policy (sequential: it toggles a package-level variable).

type pubCase struct {
	name string
	pub  any
	want [2]bool // constructible with AllowVerificationWithNonCompliantKeys = false / true
}

func fakeRSA(bits int) *rsa.PublicKey {
	n := new(big.Int).Lsh(big.NewInt(1), uint(bits-1))
	n.Add(n, big.NewInt(0x10001*3+2)) // odd, exact bit length; never used to verify
	if n.BitLen() != bits {
		panic("fakeRSA")
	}
	return &rsa.PublicKey{N: n, E: 65537}
}

func (c *checker) pubCases() []pubCase {
	var out []pubCase
	for _, k := range c.keys {
		out = append(out, pubCase{k.name, k.pub, [2]bool{k.compliant, k.defined}})
	}
	for _, b := range []int{512, 1023, 2047, 2048, 2049, 4096} {
		out = append(out, pubCase{fmt.Sprintf("rsa-modulus-%d-bits", b), fakeRSA(b), [2]bool{b >= 2048, true}})
	}
	// key types RFC 6962 does not define, and Go values that are not the public key types the API documents
	x, _ := ecdh.X25519().GenerateKey(rand.Reader)
	p, _ := c.by["p256"].priv.(*ecdsa.PrivateKey).ECDH()
	out = append(out,
		pubCase{"nil", nil, [2]bool{}},
		pubCase{"x25519", x.PublicKey(), [2]bool{}},
		pubCase{"ecdh-p256", p.PublicKey(), [2]bool{}},
		pubCase{"rsa-by-value", *c.by["rsa2048"].pub.(*rsa.PublicKey), [2]bool{}},
		pubCase{"ecdsa-by-value", *c.by["p256"].pub.(*ecdsa.PublicKey), [2]bool{}},
		pubCase{"rsa-private-key", c.by["rsa2048"].priv, [2]bool{}},
		pubCase{"ecdsa-private-key", c.by["p256"].priv, [2]bool{}},
		pubCase{"spki-bytes", c.by["p256"].spki, [2]bool{}},
	)
	return out
}

func keyClass(name string) string {
	switch {
	case strings.HasPrefix(name, "rsa-modulus"), strings.HasPrefix(name, "rsa1"), strings.HasPrefix(name, "rsa2"), strings.HasPrefix(name, "rsa3"):
		return "rsa"
	case strings.HasPrefix(name, "p2"), strings.HasPrefix(name, "p3"), strings.HasPrefix(name, "p5"):
		return "ecdsa"
	}
	return name
}

func (c *checker) construction() {
	defer func() { ct.AllowVerificationWithNonCompliantKeys = false }()
	for _, pc := range c.pubCases() {
		for ai, allow := range []bool{false, true} {
			ct.AllowVerificationWithNonCompliantKeys = allow
			var sv *ct.SignatureVerifier
			var err error
			pan, msg, stack := enum.Catch(func() { sv, err = ct.NewSignatureVerifier(pc.pub) })
			c.r.Eval(1)
			c.r.Nontrivial(fmt.Sprintf("construct|%s|%v", pc.name, allow))
			c.r.Add("construction_cases", 1)
			cd := map[string]any{"api": "ct.NewSignatureVerifier", "key": pc.name, "allow_non_compliant": allow, "want_constructed": pc.want[ai], "library": fmt.Sprint(err)}
			switch {
			case pan:
				c.r.Violation("NewSignatureVerifier: panic key="+keyClass(pc.name), msg+"\n"+stack, cd)
			case (err == nil) != pc.want[ai]:
				c.r.Violation(fmt.Sprintf("NewSignatureVerifier: policy key=%s allow=%v constructed=%v want=%v", keyClass(pc.name), allow, err == nil, pc.want[ai]),
					fmt.Sprintf("NewSignatureVerifier(%s) with AllowVerificationWithNonCompliantKeys=%v: err=%v, the property demands constructed=%v", pc.name, allow, err, pc.want[ai]), cd)
			case err == nil && (sv == nil || sv.PubKey != pc.pub):
				c.r.Violation("NewSignatureVerifier: verifier does not hold the given key", pc.name, cd)
			case err != nil && sv != nil:
				c.r.Violation("NewSignatureVerifier: error together with a verifier", pc.name, cd)
			}
		}
	}
	// the same policy seen through ctutil.NewLogInfo (parses the SPKI itself) and ctutil.VerifySCT
	leaf, perr := x509.ParseCertificate(c.certs["leaf"])
	if perr != nil {
		panic(perr)
	}
	for _, k := range c.keys {
		for _, allow := range []bool{false, true} {
			ct.AllowVerificationWithNonCompliantKeys = allow
			want := k.compliant || (allow && k.defined)
			var li *ctutil.LogInfo
			var err error
			pan, msg, stack := enum.Catch(func() {
				li, err = ctutil.NewLogInfo(&loglist3.Log{Description: k.name, URL: "ct.example.com/" + k.name, Key: k.spki, MMD: 86400}, nil)
			})
			c.r.Eval(1)
			c.r.Nontrivial(fmt.Sprintf("construct-loginfo|%s|%v", k.name, allow))
			c.r.Add("construction_cases", 1)
			cd := map[string]any{"api": "ctutil.NewLogInfo", "key": k.name, "allow_non_compliant": allow, "want_constructed": want, "library": fmt.Sprint(err)}
			switch {
			case pan:
				c.r.Violation("NewLogInfo: panic key="+keyClass(k.name), msg+"\n"+stack, cd)
			case (err == nil) != want:
				c.r.Violation(fmt.Sprintf("NewLogInfo: policy key=%s allow=%v constructed=%v want=%v", keyClass(k.name), allow, err == nil, want),
					fmt.Sprintf("NewLogInfo(%s) allow=%v: err=%v", k.name, allow, err), cd)
			case err == nil && (li == nil || li.Verifier == nil):
				c.r.Violation("NewLogInfo: no verifier", k.name, cd)
			}
			// ctutil.VerifySCT builds its verifier per call: a valid SCT by a non-compliant key passes only with the opt-in
			if k.code == 0 {
				continue
			}
			o := c.leafSCT(k, 4, leaf.Raw)
			sct, _ := o.toLib()
			data, _ := encSCTInput(o.in)
			stage := refVerify(k.pub, o.h, o.s, data, o.sig)
			if !want {
				stage = "verifier-not-constructible"
			}
			c.judge("ctutil.VerifySCT", fmt.Sprintf("policy-allow=%v", allow), k, o.h, o.s, data, o.sig, stage,
				func() error { return ctutil.VerifySCT(k.pub, []*x509.Certificate{leaf}, &sct, false) }, "honest SCT over the leaf certificate")
		}
	}
	ct.AllowVerificationWithNonCompliantKeys = true
	for _, k := range c.keys {
		if sv, err := ct.NewSignatureVerifier(k.pub); err == nil {
			c.ver[k.name] = sv
		} else {
			c.ver[k.name] = &ct.SignatureVerifier{PubKey: k.pub}
		}
	}
}

// ---------------------------------------------------------------------------
// Phase 2: all 256 x 256 (hash, signature) code pairs for every key.

func (c *checker) codePairs() {
	msg := pat(16, 0x41)
	type src struct {
		h    uint8
		sig  []byte
		note string
		only map[uint8]bool // != nil: only tried under these declared hash codes
	}
	sigs := map[string][]src{}
	for _, k := range c.keys {
		if k.code != 0 {
			for h := uint8(1); h <= 6; h++ {
				sigs[k.name] = append(sigs[k.name], src{h: h, sig: c.honestSig(k, h, msg), note: fmt.Sprintf("signature honestly made under hash code %d", h)})
			}
			// signatures over digests of every other hash linked into the binary (SHA-512/224, SHA-512/256, ...),
			// declared under the code points a verifier could mistake for them (crypto.Hash value, and value-1):
			// codes RFC 5246 does not define stay undefined
			for ch := crypto.Hash(1); ch < 20; ch++ {
				if ch == crypto.MD5 || ch == crypto.SHA1 || ch == crypto.SHA224 || ch == crypto.SHA256 || ch == crypto.SHA384 || ch == crypto.SHA512 {
					continue
				}
				if sg, ok := signDigestWith(k.priv, ch, msg); ok {
					sigs[k.name] = append(sigs[k.name], src{h: 0xfe, sig: sg, note: fmt.Sprintf("signature made over the %v digest of the message", ch),
						only: map[uint8]bool{uint8(ch): true, uint8(ch) - 1: true, uint8(ch) + 1: true}})
				}
			}
		} else { // Ed25519: its own signature plus honest signatures of other key types
			sigs[k.name] = append(sigs[k.name], src{h: 0, sig: c.honestSig(k, 4, msg), note: "Ed25519 signature"}, src{h: 4, sig: c.honestSig(c.by["p256"], 4, msg), note: "signature made by p256"},
				src{h: 4, sig: c.honestSig(c.by["rsa2048"], 4, msg), note: "signature made by rsa2048"}, src{h: 4, sig: c.honestSig(c.by["dsa1024"], 4, msg), note: "signature made by dsa1024"})
		}
	}
	done := enum.ParFor(len(c.keys)*256, c.r.Expired, func(i int) {
		k := c.keys[i/256]
		h := uint8(i % 256)
		for s := 0; s < 256; s++ {
			for _, sg := range sigs[k.name] {
				if sg.only != nil && !sg.only[h] {
					continue
				}
				stage := refVerify(k.pub, h, uint8(s), msg, sg.sig)
				note := sg.note
				c.judge("tls.VerifySignature", "codes", k, h, uint8(s), msg, sg.sig, stage, func() error {
					return tls.VerifySignature(k.pub, msg, tls.DigitallySigned{
						Algorithm: tls.SignatureAndHashAlgorithm{Hash: tls.HashAlgorithm(h), Signature: tls.SignatureAlgorithm(s)}, Signature: sg.sig})
				}, note)
				if sg.h == 4 || sg.h == 0 {
					// the same through a serialized DigitallySigned (RFC 5246 4.7) decoded by the library
					blob := encDS(h, uint8(s), sg.sig)
					c.judge("tls.Unmarshal+VerifySignature", "codes", k, h, uint8(s), msg, sg.sig, stage, func() error {
						var ds tls.DigitallySigned
						rest, err := tls.Unmarshal(blob, &ds)
						if err != nil {
							return err
						}
						if len(rest) != 0 {
							return fmt.Errorf("trailing data")
						}
						return tls.VerifySignature(k.pub, msg, ds)
					}, note)
				}
			}
		}
		c.r.Add("code_pairs_x_keys", 256)
	})
	if !done {
		c.r.Capped("deadline reached in the code-pair enumeration")
	}
}

// ---------------------------------------------------------------------------
// Signed objects.

type sctObj struct {
	in      sctInput
	logID   [32]byte // carried by the SCT, not part of the signed bytes (RFC 6962 3.2)
	leafTS  uint64   // timestamp inside the LogEntry's leaf; the signed timestamp is the SCT's own
	leafExt []byte   // extensions inside the LogEntry's leaf; the signed extensions are the SCT's own
	h, s    uint8
	sig     []byte
}

func (o *sctObj) clone() *sctObj {
	n := *o
	n.in.Cert, n.in.IKH, n.in.TBS, n.in.Ext = clone(o.in.Cert), clone(o.in.IKH), clone(o.in.TBS), clone(o.in.Ext)
	n.leafExt, n.sig = clone(o.leafExt), clone(o.sig)
	return &n
}

// toLib builds the library's view of the object the way tls.Unmarshal would:
// only the arm selected by the entry type is populated.
func (o *sctObj) toLib() (ct.SignedCertificateTimestamp, ct.LogEntry) {
	sct := ct.SignedCertificateTimestamp{SCTVersion: ct.Version(o.in.Version), LogID: ct.LogID{KeyID: o.logID}, Timestamp: o.in.Timestamp,
		Extensions: ct.CTExtensions(o.in.Ext),
		Signature:  ct.DigitallySigned{Algorithm: tls.SignatureAndHashAlgorithm{Hash: tls.HashAlgorithm(o.h), Signature: tls.SignatureAlgorithm(o.s)}, Signature: o.sig}}
	te := &ct.TimestampedEntry{Timestamp: o.leafTS, EntryType: ct.LogEntryType(o.in.EntryType), Extensions: ct.CTExtensions(o.leafExt)}
	switch o.in.EntryType {
	case 0:
		te.X509Entry = &ct.ASN1Cert{Data: o.in.Cert}
	case 1:
		var ikh [32]byte
		copy(ikh[:], o.in.IKH)
		te.PrecertEntry = &ct.PreCert{IssuerKeyHash: ikh, TBSCertificate: o.in.TBS}
	}
	return sct, ct.LogEntry{Leaf: ct.MerkleTreeLeaf{Version: ct.V1, LeafType: ct.TimestampedEntryLeafType, TimestampedEntry: te}}
}

const stObject = "object-not-defined-by-rfc6962"

func (c *checker) judgeSCT(api, family string, k *key, o *sctObj, note string) {
	data, err := encSCTInput(o.in)
	stage := stObject
	if err == nil {
		stage = refVerify(k.pub, o.h, o.s, data, o.sig)
	}
	sct, entry := o.toLib()
	sv := c.ver[k.name]
	c.judge(api, family, k, o.h, o.s, data, o.sig, stage, func() error { return sv.VerifySCTSignature(sct, entry) }, note)
}

type sthObj struct {
	in    sthInput
	logID [32]byte
	h, s  uint8
	sig   []byte
}

func (o *sthObj) clone() *sthObj {
	n := *o
	n.in.Root, n.sig = clone(o.in.Root), clone(o.sig)
	return &n
}

func (c *checker) judgeSTH(family string, k *key, o *sthObj, note string) {
	data, err := encSTHInput(o.in)
	stage := stObject
	if err == nil {
		stage = refVerify(k.pub, o.h, o.s, data, o.sig)
	}
	var root ct.SHA256Hash
	copy(root[:], o.in.Root)
	sth := ct.SignedTreeHead{Version: ct.Version(o.in.Version), TreeSize: o.in.TreeSize, Timestamp: o.in.Timestamp, SHA256RootHash: root, LogID: o.logID,
		TreeHeadSignature: ct.DigitallySigned{Algorithm: tls.SignatureAndHashAlgorithm{Hash: tls.HashAlgorithm(o.h), Signature: tls.SignatureAlgorithm(o.s)}, Signature: o.sig}}
	sv := c.ver[k.name]
	c.judge("VerifySTHSignature", family, k, o.h, o.s, data, o.sig, stage, func() error { return sv.VerifySTHSignature(sth) }, note)
}

func (c *checker) baseSCT(k *key, h uint8, precert bool, certLen, extLen int) *sctObj {
	o := &sctObj{in: sctInput{Version: 0, SigType: 0, Timestamp: 0x0000018bcfe56800, Cert: pat(certLen, 0x30), IKH: pat(32, 0x90),
		TBS: pat(certLen, 0x55), Ext: pat(extLen, 0xe0)}, leafTS: 0x0000018bcfe56800, h: h, s: k.code}
	if precert {
		o.in.EntryType = 1
	}
	copy(o.logID[:], pat(32, 0x11))
	data, err := encSCTInput(o.in)
	if err != nil {
		panic(err)
	}
	o.sig = c.honestSig(k, h, data)
	return o
}

func (c *checker) leafSCT(k *key, h uint8, cert []byte) *sctObj {
	o := &sctObj{in: sctInput{Timestamp: 0x0000018bcfe56800, Cert: clone(cert), IKH: pat(32, 0x90), TBS: []byte{1}, Ext: []byte{}}, leafTS: 0x0000018bcfe56800, h: h, s: k.code}
	d := sha256.Sum256(k.spki)
	o.logID = d
	data, _ := encSCTInput(o.in)
	o.sig = c.honestSig(k, h, data)
	return o
}

func (c *checker) baseSTH(k *key, h uint8) *sthObj {
	o := &sthObj{in: sthInput{Version: 0, SigType: 1, Timestamp: 0x0000018bcfe56801, TreeSize: 0x0000000012345678, Root: pat(32, 0xa1)}, h: h, s: k.code}
	copy(o.logID[:], pat(32, 0x11))
	data, _ := encSTHInput(o.in)
	o.sig = c.honestSig(k, h, data)
	return o
}

type sctMut struct {
	family, name string
	f            func(o *sctObj)
}

// bitsOf lists the bit positions to flip in an n-bit field: all of them, or (sparse) only the first and the last.
func bitsOf(n int, sparse bool) []int {
	if sparse && n > 2 {
		return []int{0, n - 1}
	}
	out := make([]int, n)
	for i := range out {
		out[i] = i
	}
	return out
}

// detail levels of a mutation list
const (
	dSparse  = 0 // first and last bit of every field + every structural mutation
	dFields  = 1 // every bit of every signed / unsigned field and algorithm code
	dSigBits = 2 // dFields + every bit of the signature value
)

func flipU64(v *uint64, bit int) { *v ^= 1 << uint(63-bit) }

// sctMuts lists every single-field mutation and single-bit flip of an SCT object.
// signedOnly restricts to mutations of signed fields and algorithm codes (used for pairs).
func sctMuts(o *sctObj, detail int) []sctMut {
	var m []sctMut
	withSigBits := detail >= dSigBits
	bitMuts := func(family string, nbits int, f func(o *sctObj, bit int)) []sctMut {
		var out []sctMut
		for _, i := range bitsOf(nbits, detail == dSparse) {
			i := i
			out = append(out, sctMut{family, fmt.Sprintf("%s bit %d", family, i), func(o *sctObj) { f(o, i) }})
		}
		return out
	}
	m = append(m, bitMuts("sct_version", 8, func(o *sctObj, b int) { o.in.Version ^= 0x80 >> uint(b) })...)
	m = append(m, bitMuts("timestamp", 64, func(o *sctObj, b int) { flipU64(&o.in.Timestamp, b) })...)
	m = append(m, sctMut{"timestamp", "timestamp+1", func(o *sctObj) { o.in.Timestamp++ }}, sctMut{"timestamp", "timestamp-1", func(o *sctObj) { o.in.Timestamp-- }},
		sctMut{"timestamp", "timestamp=0", func(o *sctObj) { o.in.Timestamp = 0 }}, sctMut{"timestamp", "timestamp=max", func(o *sctObj) { o.in.Timestamp = ^uint64(0) }})
	m = append(m, bitMuts("entry_type", 16, func(o *sctObj, b int) { o.in.EntryType ^= 0x8000 >> uint(b) })...)
	vf := func(family string, get func(o *sctObj) *[]byte) {
		n := len(*get(o))
		m = append(m, bitMuts(family, 8*n, func(o *sctObj, b int) { p := get(o); *p = flip(*p, b) })...)
		m = append(m,
			sctMut{family, family + " shortened at end", func(o *sctObj) { p := get(o); *p = (*p)[:len(*p)-1] }},
			sctMut{family, family + " shortened at start", func(o *sctObj) { p := get(o); *p = (*p)[1:] }},
			sctMut{family, family + " extended at end", func(o *sctObj) { p := get(o); *p = append(*p, 0) }},
			sctMut{family, family + " extended at start", func(o *sctObj) { p := get(o); *p = append([]byte{0}, *p...) }},
			sctMut{family, family + " emptied", func(o *sctObj) { p := get(o); *p = []byte{} }})
	}
	main := func(o *sctObj) *[]byte {
		if o.in.EntryType == 1 {
			return &o.in.TBS
		}
		return &o.in.Cert
	}
	if o.in.EntryType == 1 {
		m = append(m, bitMuts("issuer_key_hash", 256, func(o *sctObj, b int) { o.in.IKH = flip(o.in.IKH, b) })...)
		vf("tbs_certificate", main)
	} else {
		vf("x509_entry", main)
	}
	if len(o.in.Ext) > 0 {
		vf("extensions", func(o *sctObj) *[]byte { return &o.in.Ext })
	} else {
		m = append(m, sctMut{"extensions", "extensions extended", func(o *sctObj) { o.in.Ext = []byte{0} }})
	}
	m = append(m,
		sctMut{"field-boundary", "last byte of the entry moved to the front of extensions", func(o *sctObj) {
			p := main(o)
			o.in.Ext = append([]byte{(*p)[len(*p)-1]}, o.in.Ext...)
			*p = (*p)[:len(*p)-1]
		}},
		sctMut{"field-boundary", "entry and extensions swapped", func(o *sctObj) { p := main(o); *p, o.in.Ext = o.in.Ext, *p }})
	if len(o.in.Ext) > 0 {
		m = append(m, sctMut{"field-boundary", "first byte of extensions moved to the end of the entry", func(o *sctObj) {
			p := main(o)
			*p = append(*p, o.in.Ext[0])
			o.in.Ext = o.in.Ext[1:]
		}})
	}
	// fields that are NOT signed: the verdict must not change
	m = append(m, bitMuts("unsigned:log_id", 256, func(o *sctObj, b int) { x := flip(o.logID[:], b); copy(o.logID[:], x) })...)
	m = append(m, sctMut{"unsigned:leaf_timestamp", "leaf timestamp+1", func(o *sctObj) { o.leafTS++ }},
		sctMut{"unsigned:leaf_timestamp", "leaf timestamp=0", func(o *sctObj) { o.leafTS = 0 }},
		sctMut{"unsigned:leaf_extensions", "leaf extensions set", func(o *sctObj) { o.leafExt = []byte{1, 2, 3} }})
	m = append(m, bitMuts("hash_code", 8, func(o *sctObj, b int) { o.h ^= 0x80 >> uint(b) })...)
	m = append(m, bitMuts("signature_code", 8, func(o *sctObj, b int) { o.s ^= 0x80 >> uint(b) })...)
	if withSigBits {
		m = append(m, bitMuts("signature_value", 8*len(o.sig), func(o *sctObj, b int) { o.sig = flip(o.sig, b) })...)
		m = append(m, sctMut{"signature_value", "signature truncated by one byte", func(o *sctObj) { o.sig = o.sig[:len(o.sig)-1] }},
			sctMut{"signature_value", "signature first byte dropped", func(o *sctObj) { o.sig = o.sig[1:] }},
			sctMut{"signature_value", "signature prefixed with 00", func(o *sctObj) { o.sig = append([]byte{0}, o.sig...) }},
			sctMut{"signature_value", "signature emptied", func(o *sctObj) { o.sig = []byte{} }})
	}
	return m
}

type sthMut struct {
	family, name string
	f            func(o *sthObj)
}

func sthMuts(o *sthObj, detail int) []sthMut {
	var m []sthMut
	withSigBits := detail >= dSigBits
	bm := func(family string, n int, f func(o *sthObj, b int)) {
		for _, i := range bitsOf(n, detail == dSparse) {
			i := i
			m = append(m, sthMut{family, fmt.Sprintf("%s bit %d", family, i), func(o *sthObj) { f(o, i) }})
		}
	}
	bm("version", 8, func(o *sthObj, b int) { o.in.Version ^= 0x80 >> uint(b) })
	bm("timestamp", 64, func(o *sthObj, b int) { flipU64(&o.in.Timestamp, b) })
	bm("tree_size", 64, func(o *sthObj, b int) { flipU64(&o.in.TreeSize, b) })
	bm("sha256_root_hash", 256, func(o *sthObj, b int) { o.in.Root = flip(o.in.Root, b) })
	m = append(m, sthMut{"timestamp", "timestamp+1", func(o *sthObj) { o.in.Timestamp++ }}, sthMut{"timestamp", "timestamp-1", func(o *sthObj) { o.in.Timestamp-- }},
		sthMut{"tree_size", "tree_size+1", func(o *sthObj) { o.in.TreeSize++ }}, sthMut{"tree_size", "tree_size-1", func(o *sthObj) { o.in.TreeSize-- }},
		sthMut{"tree_size", "tree_size=0", func(o *sthObj) { o.in.TreeSize = 0 }},
		sthMut{"field-boundary", "timestamp and tree_size swapped", func(o *sthObj) { o.in.Timestamp, o.in.TreeSize = o.in.TreeSize, o.in.Timestamp }})
	bm("unsigned:log_id", 256, func(o *sthObj, b int) { x := flip(o.logID[:], b); copy(o.logID[:], x) })
	bm("hash_code", 8, func(o *sthObj, b int) { o.h ^= 0x80 >> uint(b) })
	bm("signature_code", 8, func(o *sthObj, b int) { o.s ^= 0x80 >> uint(b) })
	if withSigBits {
		bm("signature_value", 8*len(o.sig), func(o *sthObj, b int) { o.sig = flip(o.sig, b) })
		m = append(m, sthMut{"signature_value", "signature truncated by one byte", func(o *sthObj) { o.sig = o.sig[:len(o.sig)-1] }},
			sthMut{"signature_value", "signature prefixed with 00", func(o *sthObj) { o.sig = append([]byte{0}, o.sig...) }},
			sthMut{"signature_value", "signature emptied", func(o *sthObj) { o.sig = []byte{} }})
	}
	return m
}

// wrongInputs: byte strings a faulty signer/verifier pair might agree on instead
// of the canonical input; the log signs them honestly, the SCT/STH presents the
// unmodified fields, the verifier must refuse.
func wrongInputs(canon []byte, h uint8) [][2]any {
	var out [][2]any
	add := func(name string, b []byte) { out = append(out, [2]any{name, b}) }
	for i := 0; i < 8*len(canon); i++ {
		add(fmt.Sprintf("signed bytes with bit %d flipped", i), flip(canon, i))
	}
	add("signed bytes truncated by one", canon[:len(canon)-1])
	add("signed bytes without the first byte", canon[1:])
	add("signed bytes extended by 00", append(clone(canon), 0))
	add("signed bytes prefixed by 00", append([]byte{0}, canon...))
	add("empty input", []byte{})
	d, _, _ := refHash(h, canon)
	add("digest of the signed bytes (double hashing)", d)
	add("signed bytes followed by their digest", append(clone(canon), d...))
	return out
}

func signable(k *key) bool { return k.code != 0 }

// objects: honest objects and their mutations through VerifySCTSignature / VerifySTHSignature.
func (c *checker) objects() {
	th := c.r.Thorough()
	type job func()
	var jobs []job
	for _, k := range c.keys {
		if !signable(k) {
			continue
		}
		k := k
		for h := uint8(1); h <= 6; h++ {
			h := h
			// bit level (every bit of every field and of the signature value): every key under SHA-256, the two compliant
			// reference keys under every hash, DSA also under SHA-1 (the common hash not longer than its 160-bit subgroup);
			// the other (key, hash) combinations: honest + structural mutations + first/last bit of every field. thorough: bit level everywhere
			sigBits := dSparse
			if th || h == 4 || k.name == "p256" || k.name == "rsa2048" || (k.code == 2 && h == 2) {
				sigBits = dSigBits
			}
			for _, precert := range []bool{false, true} {
				precert := precert
				jobs = append(jobs, func() {
					base := c.baseSCT(k, h, precert, 16, 16)
					api := "VerifySCTSignature(x509)"
					if precert {
						api = "VerifySCTSignature(precert)"
					}
					c.judgeSCT(api, "honest", k, base, "honest object")
					for _, mu := range sctMuts(base, sigBits) {
						o := base.clone()
						mu.f(o)
						c.judgeSCT(api, mu.family, k, o, mu.name)
					}
				})
			}
			jobs = append(jobs, func() {
				base := c.baseSTH(k, h)
				c.judgeSTH("honest", k, base, "honest object")
				for _, mu := range sthMuts(base, sigBits) {
					o := base.clone()
					mu.f(o)
					c.judgeSTH(mu.family, k, o, mu.name)
				}
			})
			// reverse direction: the log signed something else than the canonical bytes
			if th || (h == 4 && (k.name == "p256" || k.name == "rsa2048" || k.name == "dsa1024" || k.name == "p384")) {
				for _, precert := range []bool{false, true} {
					precert := precert
					jobs = append(jobs, func() {
						base := c.baseSCT(k, h, precert, 16, 16)
						canon, _ := encSCTInput(base.in)
						api := "VerifySCTSignature(x509)"
						if precert {
							api = "VerifySCTSignature(precert)"
						}
						for _, w := range wrongInputs(canon, h) {
							o := base.clone()
							o.sig = sign(k.priv, h, w[1].([]byte))
							c.judgeSCT(api, "signed-bytes", k, o, "log signed: "+w[0].(string))
						}
						// cross-structure: a tree head signature of the same log presented in an SCT
						o := base.clone()
						o.sig = c.baseSTH(k, h).sig
						c.judgeSCT(api, "signed-bytes", k, o, "log signed: a tree head")
					})
				}
				jobs = append(jobs, func() {
					base := c.baseSTH(k, h)
					canon, _ := encSTHInput(base.in)
					for _, w := range wrongInputs(canon, h) {
						o := base.clone()
						o.sig = sign(k.priv, h, w[1].([]byte))
						c.judgeSTH("signed-bytes", k, o, "log signed: "+w[0].(string))
					}
					o := base.clone()
					o.sig = c.baseSCT(k, h, false, 16, 16).sig
					c.judgeSTH("signed-bytes", k, o, "log signed: an SCT input")
				})
			}
		}
		// length-prefix boundaries of the variable fields, honest and a few mutations
		if k.name == "p256" || k.name == "rsa2048" || th {
			certLens := []int{1, 2, 127, 128, 255, 256, 65535, 65536, 70000}
			extLens := []int{0, 1, 127, 128, 255, 256, 65535}
			for _, cl := range certLens {
				for _, el := range extLens {
					cl, el := cl, el
					jobs = append(jobs, func() {
						for _, precert := range []bool{false, true} {
							api := "VerifySCTSignature(x509)"
							if precert {
								api = "VerifySCTSignature(precert)"
							}
							base := c.baseSCT(k, 4, precert, cl, el)
							shape := fmt.Sprintf("entry %d bytes, extensions %d bytes", cl, el)
							c.judgeSCT(api, "honest", k, base, "honest object, "+shape)
							// bit-level coverage is done on the 16-byte shape; here first/last bit of each field + all structural mutations
							for _, mu := range sctMuts(base, dSparse) {
								o := base.clone()
								mu.f(o)
								c.judgeSCT(api, mu.family, k, o, mu.name+", "+shape)
							}
						}
					})
				}
			}
		}
	}
	// tree heads at the boundaries of their fields: empty tree, one leaf, sizes with the top bit set, timestamp 0 / max,
	// root hashes that look special (all zero, the empty-tree hash, all ones). Every one is signed over the fields it carries.
	for _, kn := range []string{"p256", "rsa2048"} {
		k := c.by[kn]
		emptyRoot := sha256.Sum256(nil)
		for _, size := range []uint64{0, 1, 2, 1 << 63, ^uint64(0)} {
			for ri, root := range [][]byte{pat(32, 0xa1), make([]byte, 32), emptyRoot[:], bytes.Repeat([]byte{0xff}, 32)} {
				for _, ts := range []uint64{0, 0x0000018bcfe56801, ^uint64(0)} {
					size, ri, root, ts := size, ri, root, ts
					jobs = append(jobs, func() {
						base := c.baseSTH(k, 4)
						base.in.TreeSize, base.in.Root, base.in.Timestamp = size, clone(root), ts
						data, _ := encSTHInput(base.in)
						base.sig = c.honestSig(k, 4, data)
						shape := fmt.Sprintf("tree_size %d, root #%d, timestamp %d", size, ri, ts)
						c.judgeSTH("honest", k, base, "honest object, "+shape)
						detail := dSparse
						if ts == 0x0000018bcfe56801 {
							detail = dFields
						}
						for _, mu := range sthMuts(base, detail) {
							o := base.clone()
							mu.f(o)
							c.judgeSTH(mu.family, k, o, mu.name+", "+shape)
						}
					})
				}
			}
		}
	}
	// entries the verifier must survive: a key that is of no defined type
	ed := c.by["ed25519"]
	jobs = append(jobs, func() {
		for h := 0; h < 256; h++ {
			for _, s := range []uint8{0, 1, 2, 3, 7, 8} {
				o := c.baseSCT(c.by["p256"], 4, false, 16, 16)
				o.h, o.s = uint8(h), s
				c.judgeSCT("VerifySCTSignature(x509)", "undefined-key-type", ed, o, "verifier holds an Ed25519 key")
				st := c.baseSTH(c.by["p256"], 4)
				st.h, st.s = uint8(h), s
				c.judgeSTH("undefined-key-type", ed, st, "verifier holds an Ed25519 key")
			}
		}
	})
	// thorough: every pair of single mutations on the reference key
	if th {
		for _, kn := range []string{"p256", "rsa2048", "p384"} {
			k := c.by[kn]
			for _, precert := range []bool{false, true} {
				base := c.baseSCT(k, 4, precert, 16, 16)
				ms := sctMuts(base, dFields)
				api := "VerifySCTSignature(x509)"
				if precert {
					api = "VerifySCTSignature(precert)"
				}
				for i := range ms {
					i := i
					jobs = append(jobs, func() {
						for j := i + 1; j < len(ms); j++ {
							o := base.clone()
							if pan, _, _ := enum.Catch(func() { ms[i].f(o); ms[j].f(o) }); pan {
								continue // the second mutation does not apply after the first (e.g. shorten an emptied field)
							}
							c.judgeSCT(api, "pair:"+ms[i].family+"+"+ms[j].family, k, o, ms[i].name+" and "+ms[j].name)
						}
					})
				}
			}
			base := c.baseSTH(k, 4)
			ms := sthMuts(base, dFields)
			for i := range ms {
				i := i
				jobs = append(jobs, func() {
					for j := i + 1; j < len(ms); j++ {
						o := base.clone()
						ms[i].f(o)
						ms[j].f(o)
						c.judgeSTH("pair:"+ms[i].family+"+"+ms[j].family, k, o, ms[i].name+" and "+ms[j].name)
					}
				})
			}
		}
	}
	c.r.Set("object_jobs", len(jobs))
	done := enum.ParFor(len(jobs), c.r.Expired, func(i int) {
		if pan, msg, stack := enum.Catch(jobs[i]); pan {
			c.r.Violation("harness-panic", msg+"\n"+stack, i)
		}
	})
	if !done {
		c.r.Capped("deadline reached in the signed-object enumeration")
	}
}

// ---------------------------------------------------------------------------
// Phase 4: DER malformations of ECDSA / DSA signature values.

type derCase struct {
	name string
	b    []byte
}

func derMalformations(sig []byte, order *big.Int) []derCase {
	r, s, ok := derRS(sig)
	if !ok {
		panic("harness: honest signature is not DER")
	}
	intTLV := derIntTLV
	rT, sT := intTLV(r), intTLV(s)
	seq := func(parts ...[]byte) []byte { return derWrap(0x30, bytes.Join(parts, nil)) }
	rawInt := func(content []byte) []byte { return derWrap(0x02, content) }
	rC, _, _ := derTLV(rT, 0x02)
	sC, _, _ := derTLV(sT, 0x02)
	body := append(clone(rT), sT...)
	neg := func(v *big.Int) *big.Int { return new(big.Int).Neg(v) }
	var out []derCase
	add := func(name string, b []byte) { out = append(out, derCase{name, b}) }
	add("exact", clone(sig))
	add("trailing-outside", append(clone(sig), 0))
	add("trailing-outside", append(clone(sig), 0xff))
	add("trailing-outside", append(clone(sig), sig...))
	add("trailing-outside", append(clone(sig), make([]byte, 1000)...))
	add("trailing-outside", append(clone(sig), pat(65000, 3)...))
	// a third element / stray octets inside the SEQUENCE (one family: they are one way of not being an Ecdsa-Sig-Value)
	add("trailing-inside-sequence", seq(rT, sT, []byte{0}))
	add("trailing-inside-sequence", seq(rT, sT, []byte{5, 0}))
	add("trailing-inside-sequence", seq(rT, sT, []byte{2, 1, 1}))
	add("trailing-inside-sequence", seq(rT, sT, []byte{0, 0}))
	add("trailing-inside-sequence", seq(rT, sT, sT))
	// both at once: extra elements inside the SEQUENCE and bytes after it (each alone is
	// handled by a different branch of the verifier)
	for _, in := range [][]byte{{0}, {5, 0}, {2, 1, 1}, sT} {
		for _, out := range [][]byte{{0}, {0xff}, {5, 0}} {
			add("trailing-inside-and-outside", append(seq(rT, sT, in), out...))
		}
	}
	add("seq-length+1", append(append([]byte{0x30}, derLen(len(body)+1)...), body...))
	add("seq-length-1", append(append([]byte{0x30}, derLen(len(body)-1)...), body...))
	add("seq-length-0", append([]byte{0x30, 0}, body...))
	for i := 0; i < len(sig); i++ {
		add("prefix", clone(sig[:i]))
	}
	add("r-zero", encRS(big.NewInt(0), s))
	add("s-zero", encRS(r, big.NewInt(0)))
	add("both-zero", encRS(big.NewInt(0), big.NewInt(0)))
	add("r-negated", encRS(neg(r), s))
	add("s-negated", encRS(r, neg(s)))
	add("both-negated", encRS(neg(r), neg(s)))
	add("r-minus-order", encRS(new(big.Int).Sub(r, order), s))
	add("s-minus-order", encRS(r, new(big.Int).Sub(s, order)))
	add("r-plus-order", encRS(new(big.Int).Add(r, order), s))
	add("s-plus-order", encRS(r, new(big.Int).Add(s, order)))
	add("s-order-minus-s", encRS(r, new(big.Int).Sub(order, s)))
	add("r-order-minus-r", encRS(new(big.Int).Sub(order, r), s))
	add("r-and-s-swapped", encRS(s, r))
	add("r-one", encRS(big.NewInt(1), s))
	add("s-one", encRS(r, big.NewInt(1)))
	add("r-nonminimal-leading-00", seq(rawInt(append([]byte{0}, rC...)), sT))
	add("s-nonminimal-leading-00", seq(rT, rawInt(append([]byte{0}, sC...))))
	add("r-nonminimal-leading-0000", seq(rawInt(append([]byte{0, 0}, rC...)), sT))
	add("r-negated-nonminimal-leading-ff", func() []byte {
		c, _, _ := derTLV(intTLV(neg(r)), 0x02)
		return seq(rawInt(append([]byte{0xff}, c...)), sT)
	}())
	if rC[0] == 0 && len(rC) > 1 {
		add("r-sign-octet-dropped", seq(rawInt(rC[1:]), sT)) // reads as a negative number
	}
	if sC[0] == 0 && len(sC) > 1 {
		add("s-sign-octet-dropped", seq(rawInt(sC[1:]), sT))
	}
	add("r-empty-integer", seq([]byte{2, 0}, sT))
	add("s-empty-integer", seq(rT, []byte{2, 0}))
	add("only-r", seq(rT))
	add("empty-sequence", []byte{0x30, 0})
	add("empty", []byte{})
	add("nested-sequence", seq(seq(rT, sT)))
	longLen := func(n int) []byte {
		if n < 0x80 {
			return []byte{0x81, byte(n)}
		}
		return []byte{0x82, 0, byte(n)}
	}
	add("seq-length-nonminimal", append(append([]byte{0x30}, longLen(len(body))...), body...))
	add("seq-length-nonminimal-4-octets", append(append([]byte{0x30, 0x84, 0, 0, 0}, byte(len(body))), body...))
	add("r-length-nonminimal", seq(append(append([]byte{0x02}, longLen(len(rC))...), rC...), sT))
	add("s-length-nonminimal", seq(rT, append(append([]byte{0x02}, longLen(len(sC))...), sC...)))
	add("seq-indefinite-length", append(append([]byte{0x30, 0x80}, body...), 0, 0))
	add("r-indefinite-length", seq(append(append([]byte{0x02, 0x80}, rC...), 0, 0), sT))
	for _, t := range []byte{0x10, 0x31, 0x11, 0x70, 0xb0, 0x04, 0x24, 0x00} {
		add(fmt.Sprintf("seq-tag-%02x", t), append([]byte{t}, sig[1:]...))
	}
	add("seq-tag-high-number-form", append([]byte{0x3f, 0x10}, sig[1:]...))
	for _, t := range []byte{0x03, 0x0a, 0x22, 0x82, 0x42, 0x04, 0x01, 0x00} {
		add(fmt.Sprintf("r-tag-%02x", t), seq(append([]byte{t}, rT[1:]...), sT))
		add(fmt.Sprintf("s-tag-%02x", t), seq(rT, append([]byte{t}, sT[1:]...)))
	}
	for _, l := range [][]byte{{0x84, 0xff, 0xff, 0xff, 0xff}, {0x84, 0x7f, 0xff, 0xff, 0xff}, {0x83, 0xff, 0xff, 0xff}, {0x88, 0xff, 0xff, 0xff, 0xff, 0xff, 0xff, 0xff, 0xff},
		{0x88, 0x80, 0, 0, 0, 0, 0, 0, 0}, {0x89, 1, 0, 0, 0, 0, 0, 0, 0, 0}, {0xff}, {0x82, 0xff, 0xff}} {
		add("seq-length-huge", append(append([]byte{0x30}, l...), body...))
		add("r-length-huge", append(append(append([]byte{0x30, byte(len(body) + len(l) - 1), 0x02}, l...), rC...), sT...))
	}
	return out
}

func orderOf(k *key) *big.Int {
	switch p := k.pub.(type) {
	case *ecdsa.PublicKey:
		return p.Params().N
	case *dsa.PublicKey:
		return p.Q
	}
	panic("harness: no group order for " + k.name)
}

func (c *checker) derPhase() {
	th := c.r.Thorough()
	var jobs []func()
	for _, k := range c.keys {
		if k.code != 2 && k.code != 3 {
			continue
		}
		k := k
		for h := uint8(1); h <= 6; h++ {
			if !th && h != 4 && k.name != "p256" && !(k.code == 2 && h == 2) {
				continue
			}
			h := h
			for mi, msg := range [][]byte{pat(16, 0x41), {}} {
				if mi == 1 && h != 4 {
					continue
				}
				msg := msg
				jobs = append(jobs, func() {
					sig := c.honestSig(k, h, msg)
					cases := derMalformations(sig, orderOf(k))
					for i := 0; i < 8*len(sig); i++ {
						cases = append(cases, derCase{"bit-flip", flip(sig, i)})
					}
					if dp, ok := k.priv.(*dsa.PrivateKey); ok {
						// a signer that skipped the FIPS 186-3 truncation of the digest to the subgroup size
						d, _, _ := refHash(h, msg)
						cases = append(cases, derCase{"dsa-untruncated-digest", encRS(signDSAz(dp, new(big.Int).SetBytes(d), d))})
					}
					if th && k.name == "p256" && h == 4 { // every pair of bit flips in the first 12 octets (all header octets and the top of r)
						for i := 0; i < 96; i++ {
							for j := i + 1; j < 96; j++ {
								cases = append(cases, derCase{"two-bit-flips", flip(flip(sig, i), j)})
							}
						}
					}
					for _, dc := range cases {
						dc := dc
						stage := refVerify(k.pub, h, k.code, msg, dc.b)
						c.judge("tls.VerifySignature", "der:"+dc.name, k, h, k.code, msg, dc.b, stage, func() error {
							return tls.VerifySignature(k.pub, msg, tls.DigitallySigned{
								Algorithm: tls.SignatureAndHashAlgorithm{Hash: tls.HashAlgorithm(h), Signature: tls.SignatureAlgorithm(k.code)}, Signature: dc.b})
						}, dc.name)
						c.r.Add("der_cases", 1)
					}
				})
			}
		}
	}
	// RSA signature values: numeric edge cases next to the bit flips done in the object phase
	for _, k := range c.keys {
		if k.code != 1 {
			continue
		}
		k := k
		jobs = append(jobs, func() {
			msg := pat(16, 0x41)
			sig := c.honestSig(k, 4, msg)
			n := k.pub.(*rsa.PublicKey).N
			sv := new(big.Int).SetBytes(sig)
			kl := (n.BitLen() + 7) / 8
			fill := func(v *big.Int, l int) []byte { return v.FillBytes(make([]byte, l)) }
			cases := []derCase{{"exact", sig}, {"zero", make([]byte, kl)}, {"one", fill(big.NewInt(1), kl)}, {"modulus", fill(n, kl)},
				{"modulus-minus-1", fill(new(big.Int).Sub(n, big.NewInt(1)), kl)}, {"value-plus-modulus", fill(new(big.Int).Add(sv, n), kl+1)},
				{"modulus-minus-value", fill(new(big.Int).Sub(n, sv), kl)}, {"leading-00-added", append([]byte{0}, sig...)},
				{"trailing-00-added", append(clone(sig), 0)}, {"last-octet-dropped", sig[:len(sig)-1]}, {"empty", []byte{}},
				{"der-wrapped", derWrap(0x04, sig)}}
			if sig[0] == 0 {
				cases = append(cases, derCase{"leading-00-dropped", sig[1:]})
			}
			for i := 0; i < 8*len(sig); i++ {
				cases = append(cases, derCase{"bit-flip", flip(sig, i)})
			}
			for _, dc := range cases {
				dc := dc
				stage := refVerify(k.pub, 4, 1, msg, dc.b)
				c.judge("tls.VerifySignature", "rsa-value:"+dc.name, k, 4, 1, msg, dc.b, stage, func() error {
					return tls.VerifySignature(k.pub, msg, tls.DigitallySigned{
						Algorithm: tls.SignatureAndHashAlgorithm{Hash: tls.SHA256, Signature: tls.RSA}, Signature: dc.b})
				}, dc.name)
			}
		})
	}
	// a serialized DigitallySigned (RFC 5246 4.7): every bit of its 4 header octets, truncation, extension
	for _, k := range c.keys {
		if k.code == 0 {
			continue
		}
		k := k
		jobs = append(jobs, func() {
			msg := pat(16, 0x41)
			h := uint8(4)
			if k.code == 2 {
				h = 2
			}
			blob := encDS(h, k.code, c.honestSig(k, h, msg))
			cases := []derCase{{"exact", blob}, {"last-octet-dropped", blob[:len(blob)-1]}, {"octet-appended", append(clone(blob), 0)},
				{"header-only", blob[:4]}, {"empty", []byte{}}, {"length-octets-dropped", append(clone(blob[:2]), blob[4:]...)}}
			for i := 0; i < 32; i++ {
				cases = append(cases, derCase{"header-bit-flip", flip(blob, i)})
			}
			for _, dc := range cases {
				dc := dc
				stage := "digitally-signed-malformed"
				bh, bs, bsig, ok := decDS(dc.b)
				if ok {
					stage = refVerify(k.pub, bh, bs, msg, bsig)
				}
				c.judge("tls.Unmarshal+VerifySignature", "digitally-signed:"+dc.name, k, bh, bs, msg, dc.b, stage, func() error {
					var ds tls.DigitallySigned
					rest, err := tls.Unmarshal(dc.b, &ds)
					if err != nil {
						return err
					}
					if len(rest) != 0 {
						return fmt.Errorf("trailing data after DigitallySigned")
					}
					return tls.VerifySignature(k.pub, msg, ds)
				}, dc.name)
			}
		})
	}
	done := enum.ParFor(len(jobs), c.r.Expired, func(i int) {
		if pan, msg, stack := enum.Catch(jobs[i]); pan {
			c.r.Violation("harness-panic", msg+"\n"+stack, i)
		}
	})
	if !done {
		c.r.Capped("deadline reached in the signature-value enumeration")
	}
}

// ---------------------------------------------------------------------------
// Phase 5: every honest signature of key A under every key B (wrong key).

func (c *checker) crossKeys() {
	msgs := [][]byte{pat(16, 0x41), {}}
	n := len(c.keys)
	enum.ParFor(n*n, nil, func(i int) {
		a, b := c.keys[i/n], c.keys[i%n]
		for _, msg := range msgs {
			for h := uint8(1); h <= 6; h++ {
				sig := c.honestSig(a, 4, msg)
				if a.code != 0 {
					sig = c.honestSig(a, h, msg)
				}
				for _, s := range []uint8{a.code, b.code} {
					stage := refVerify(b.pub, h, s, msg, sig)
					sv := c.ver[b.name]
					c.judge("SignatureVerifier.VerifySignature", "key", b, h, s, msg, sig, stage, func() error {
						return sv.VerifySignature(msg, tls.DigitallySigned{
							Algorithm: tls.SignatureAndHashAlgorithm{Hash: tls.HashAlgorithm(h), Signature: tls.SignatureAlgorithm(s)}, Signature: sig})
					}, "signature made by "+a.name)
				}
			}
		}
	})
}

// ---------------------------------------------------------------------------
// Phase 6: signed log list.

type llLog struct {
	desc string
	k    *key
}

func b64(b []byte) string { return base64.StdEncoding.EncodeToString(b) }

// logListJSON writes a v3 log list by hand (schema: log_list_schema.json).
func logListJSON(ops [][]llLog) []byte {
	var sb strings.Builder
	sb.WriteString("{\n  \"version\": \"7.5\",\n  \"log_list_timestamp\": \"2026-09-30T12:00:00Z\",\n  \"operators\": [")
	for oi, logs := range ops {
		if oi > 0 {
			sb.WriteString(",")
		}
		fmt.Fprintf(&sb, "\n    {\"name\": \"operator %d\", \"email\": [\"op%d@example.com\"], \"logs\": [", oi, oi)
		for li, l := range logs {
			if li > 0 {
				sb.WriteString(",")
			}
			id := sha256.Sum256(l.k.spki)
			fmt.Fprintf(&sb, "\n      {\"description\": %q, \"log_id\": %q, \"key\": %q, \"url\": \"https://ct.example.com/%s/\", \"mmd\": 86400,"+
				" \"state\": {\"usable\": {\"timestamp\": \"2026-01-01T00:00:00Z\"}}}", l.desc, b64(id[:]), b64(l.k.spki), l.k.name)
		}
		sb.WriteString("\n    ], \"tiled_logs\": []}")
	}
	sb.WriteString("\n  ]\n}\n")
	return []byte(sb.String())
}

func (c *checker) judgeLogList(family string, k *key, js, sig []byte, ops [][]llLog, note string) {
	stage := "key-type-not-supported-for-log-lists"
	var s uint8
	switch k.code {
	case 1, 3:
		s = k.code
		stage = refVerify(k.pub, 4, s, js, sig)
	}
	var ll *loglist3.LogList
	c.judge("NewFromSignedJSON", family, k, 4, s, js, sig, stage, func() error {
		var err error
		ll, err = loglist3.NewFromSignedJSON(js, sig, k.pub)
		if err == nil && ll == nil {
			return fmt.Errorf("nil list and nil error")
		}
		return err
	}, note)
	if stage == stAccept && ll != nil && ops != nil {
		ok := len(ll.Operators) == len(ops) && ll.Version == "7.5"
		for oi := 0; ok && oi < len(ops); oi++ {
			op := ll.Operators[oi]
			ok = op.Name == fmt.Sprintf("operator %d", oi) && len(op.Logs) == len(ops[oi])
			for li := 0; ok && li < len(ops[oi]); li++ {
				id := sha256.Sum256(ops[oi][li].k.spki)
				ok = bytes.Equal(op.Logs[li].Key, ops[oi][li].k.spki) && bytes.Equal(op.Logs[li].LogID, id[:]) && op.Logs[li].Description == ops[oi][li].desc
			}
		}
		if !ok {
			c.r.Violation("NewFromSignedJSON: accepted list differs from the signed JSON", note, map[string]any{"key": k.name, "json": string(js)})
		}
	}
}

func (c *checker) logLists() {
	th := c.r.Thorough()
	ops := [][]llLog{{{"log p256", c.by["p256"]}, {"log rsa2048", c.by["rsa2048"]}}, {{"log p256b", c.by["p256b"]}, {"log rsa3072", c.by["rsa3072"]}}}
	js := logListJSON(ops)
	c.r.Set("log_list_json_bytes", len(js))
	var jobs []func()
	for _, k := range c.keys {
		k := k
		jobs = append(jobs, func() {
			if k.code != 1 && k.code != 3 {
				// DSA / Ed25519: NewFromSignedJSON documents RSA and ECDSA only
				c.judgeLogList("honest", k, js, sign(k.priv, 4, js), ops, "honest list signed by a key type the function does not support")
				return
			}
			sig := c.honestSig(k, 4, js)
			c.judgeLogList("honest", k, js, sig, ops, "honest list")
			for _, h := range []uint8{1, 2, 3, 5, 6} { // the list signature is SHA-256 by definition
				c.judgeLogList("hash", k, js, c.honestSig(k, h, js), ops, fmt.Sprintf("signature made with hash code %d", h))
			}
			for _, o := range c.keys {
				if o != k {
					c.judgeLogList("key", o, js, sig, ops, "list signed by "+k.name)
				}
			}
			c.judgeLogList("key", &key{name: "nil"}, js, sig, ops, "nil public key")
			for i := 0; i < 8*len(sig); i++ {
				c.judgeLogList("signature_value", k, js, flip(sig, i), ops, fmt.Sprintf("signature bit %d flipped", i))
			}
			sm := [][2]any{{"signature truncated", sig[:len(sig)-1]}, {"signature emptied", []byte{}}, {"signature prefixed with 00", append([]byte{0}, sig...)},
				{"signature followed by 00", append(clone(sig), 0)}, {"signature wrapped in a DigitallySigned", encDS(4, k.code, sig)},
				// the signature file is binary: line terminators are not part of it (an RSA value has a fixed length; for ECDSA,
				// bytes after the DER value are ignored by the statement, and refVerify knows)
				{"signature followed by LF", append(clone(sig), '\n')}, {"signature followed by CR LF", append(clone(sig), '\r', '\n')}, {"signature followed by LF LF", append(clone(sig), '\n', '\n')}}
			// ... and a genuine signature may end in a byte that looks like a line terminator: lists (differing in one
			// description) are signed until the signature value ends in LF and in CR
			if k.name == "rsa2048" || k.name == "p256" {
				for _, last := range []byte{'\n', '\r'} {
					for try := 0; try < 4000; try++ {
						ops2 := [][]llLog{{{fmt.Sprintf("log p256 #%d", try), c.by["p256"]}, ops[0][1]}, ops[1]}
						js2 := logListJSON(ops2)
						sg2 := sign(k.priv, 4, js2)
						if sg2[len(sg2)-1] == last {
							c.judgeLogList("honest", k, js2, sg2, ops2, fmt.Sprintf("honest list whose signature value ends in byte 0x%02x", last))
							c.r.Add("log_list_signatures_ending_in_a_line_terminator_byte", 1)
							break
						}
					}
				}
			}
			for _, m := range sm {
				c.judgeLogList("signature_value", k, js, m[1].([]byte), ops, m[0].(string))
			}
			jm := [][2]any{{"JSON followed by a space", append(clone(js), ' ')}, {"JSON followed by a newline", append(clone(js), '\n')},
				{"JSON followed by NUL", append(clone(js), 0)}, {"JSON preceded by a space", append([]byte{' '}, js...)},
				{"JSON without its final newline", js[:len(js)-1]}, {"JSON without its first byte", js[1:]}, {"empty JSON", []byte{}},
				{"JSON preceded by a UTF-8 BOM", append([]byte{0xef, 0xbb, 0xbf}, js...)},
				{"JSON with CRLF line ends", bytes.ReplaceAll(js, []byte("\n"), []byte("\r\n"))},
				{"JSON compacted", bytes.ReplaceAll(js, []byte("\n"), nil)},
				{"JSON with two logs swapped", logListJSON([][]llLog{{ops[0][1], ops[0][0]}, ops[1]})},
				{"JSON with a log key replaced", logListJSON([][]llLog{{{"log p256", c.by["p256b"]}, ops[0][1]}, ops[1]})}}
			for _, m := range jm {
				c.judgeLogList("json-bytes", k, m[1].([]byte), sig, nil, m[0].(string))
			}
		})
	}
	// every bit of the JSON: the two compliant reference keys (thorough: every RSA / ECDSA key)
	for _, k := range c.keys {
		if (k.code != 1 && k.code != 3) || !(th || k.name == "p256" || k.name == "rsa2048") {
			continue
		}
		k := k
		sig := c.honestSig(k, 4, js)
		for lo := 0; lo < len(js); lo += 64 {
			lo := lo
			jobs = append(jobs, func() {
				for i := 8 * lo; i < 8*(lo+64) && i < 8*len(js); i++ {
					c.judgeLogList("json-bit", k, flip(js, i), sig, nil, fmt.Sprintf("JSON bit %d flipped", i))
				}
			})
		}
	}
	done := enum.ParFor(len(jobs), c.r.Expired, func(i int) {
		if pan, msg, stack := enum.Catch(jobs[i]); pan {
			c.r.Violation("harness-panic", msg+"\n"+stack, i)
		}
	})
	if !done {
		c.r.Capped("deadline reached in the log-list enumeration")
	}
}

// ---------------------------------------------------------------------------
// Phase 7: ctutil.VerifySCT / VerifySCTWithVerifier / LogInfo over real certificates.

// derElement splits one DER TLV (any tag, lengths up to 3 octets) off b.
func derElement(b []byte) (whole, content, rest []byte) {
	c, rest, ok := derTLV(b, b[0])
	if !ok {
		panic("harness: stored certificate is not DER")
	}
	return b[:len(b)-len(rest)], c, rest
}

// tbsOf returns the DER of the TBSCertificate of a certificate (RFC 5280 4.1: first element of the outer SEQUENCE).
func tbsOf(cert []byte) []byte {
	_, c, _ := derElement(cert)
	tbs, _, _ := derElement(c)
	return tbs
}

func (c *checker) certPaths() {
	th := c.r.Thorough()
	parse := func(name string) *x509.Certificate {
		crt, err := x509.ParseCertificate(c.certs[name])
		if err != nil {
			panic(fmt.Sprintf("cannot parse stored certificate %s: %v", name, err))
		}
		return crt
	}
	leaf, leaf2, ca, cab, pre := parse("leaf"), parse("leaf2"), parse("ca"), parse("cab"), parse("precert")
	caSPKI, cabSPKI := sha256.Sum256(c.by["ca"].spki), sha256.Sum256(c.by["cab"].spki)
	finalTBS := tbsOf(c.certs["final"])
	c.r.Set("leaf_certificate_bytes", len(leaf.Raw))

	// the three library entry points, all with AllowVerificationWithNonCompliantKeys=false
	type entry struct {
		api  string
		call func(k *key, chain []*x509.Certificate, sct *ct.SignedCertificateTimestamp) error
		// needPolicy: the entry point builds its own verifier and therefore refuses non-compliant keys
		needPolicy bool
	}
	infos := map[string]*ctutil.LogInfo{}
	for _, k := range c.keys {
		if k.compliant {
			li, err := ctutil.NewLogInfo(&loglist3.Log{Description: k.name, URL: "ct.example.com/" + k.name, Key: k.spki, MMD: 86400}, nil)
			if err != nil {
				panic(err) // already reported by the construction phase
			}
			infos[k.name] = li
		} else {
			infos[k.name] = &ctutil.LogInfo{Description: k.name, Verifier: c.ver[k.name]}
		}
	}
	entries := []entry{
		{"ctutil.VerifySCT", func(k *key, chain []*x509.Certificate, sct *ct.SignedCertificateTimestamp) error {
			return ctutil.VerifySCT(k.pub, chain, sct, false)
		}, true},
		{"ctutil.VerifySCTWithVerifier", func(k *key, chain []*x509.Certificate, sct *ct.SignedCertificateTimestamp) error {
			return ctutil.VerifySCTWithVerifier(c.ver[k.name], chain, sct, false)
		}, false},
		{"LogInfo.VerifySCTSignature", func(k *key, chain []*x509.Certificate, sct *ct.SignedCertificateTimestamp) error {
			// the caller supplies the leaf (as sctcheck does); LogInfo overrides its timestamp with the SCT's
			etype := ct.X509LogEntryType
			if chain[0].IsPrecertificate() {
				etype = ct.PrecertLogEntryType
			}
			l, err := ct.MerkleTreeLeafFromChain(chain, etype, 12345)
			if err != nil {
				return err
			}
			return infos[k.name].VerifySCTSignature(*sct, *l)
		}, false},
	}

	// one presented case: the certificate bytes the verifier sees + the SCT fields
	type pres struct {
		chain  []*x509.Certificate
		in     sctInput // what RFC 6962 says is signed for this chain and SCT
		h, s   uint8
		sig    []byte
		family string
		note   string
	}
	withRaw := func(crt *x509.Certificate, raw []byte) *x509.Certificate {
		n := *crt
		n.Raw = raw
		return &n
	}
	var jobs []func()
	run := func(k *key, p pres) {
		data, err := encSCTInput(p.in)
		base := stObject
		if err == nil {
			base = refVerify(k.pub, p.h, p.s, data, p.sig)
		}
		for _, e := range entries {
			stage := base
			if e.needPolicy && !k.compliant {
				stage = "verifier-not-constructible"
			}
			sct := ct.SignedCertificateTimestamp{SCTVersion: ct.Version(p.in.Version), LogID: ct.LogID{KeyID: sha256.Sum256(k.spki)}, Timestamp: p.in.Timestamp,
				Extensions: ct.CTExtensions(clone(p.in.Ext)),
				Signature:  ct.DigitallySigned{Algorithm: tls.SignatureAndHashAlgorithm{Hash: tls.HashAlgorithm(p.h), Signature: tls.SignatureAlgorithm(p.s)}, Signature: p.sig}}
			e := e
			c.judge(e.api, p.family, k, p.h, p.s, data, p.sig, stage, func() error { return e.call(k, p.chain, &sct) }, p.note)
		}
	}
	for _, k := range c.keys {
		if !signable(k) {
			continue
		}
		k := k
		full := th || k.name == "p256" || k.name == "rsa2048"
		jobs = append(jobs, func() {
			// x509 entry: signed_entry = the DER of chain[0]
			in := sctInput{Timestamp: 0x0000018bcfe56802, EntryType: 0, Cert: leaf.Raw, Ext: []byte{}}
			data, _ := encSCTInput(in)
			sig := c.honestSig(k, 4, data)
			hon := pres{chain: []*x509.Certificate{leaf}, in: in, h: 4, s: k.code, sig: sig, family: "honest", note: "honest SCT, chain = [leaf]"}
			run(k, hon)
			p := hon
			p.chain, p.note = []*x509.Certificate{leaf, ca}, "honest SCT, chain = [leaf, issuer]"
			run(k, p)
			for h := uint8(1); h <= 6; h++ {
				p = hon
				p.h, p.sig, p.family, p.note = h, c.honestSig(k, h, data), "honest", fmt.Sprintf("honest SCT under hash code %d", h)
				run(k, p)
			}
			ine := in
			ine.Ext = pat(5, 0x70)
			de, _ := encSCTInput(ine)
			p = pres{chain: []*x509.Certificate{leaf}, in: ine, h: 4, s: k.code, sig: c.honestSig(k, 4, de), family: "honest", note: "honest SCT with extensions"}
			run(k, p)
			for b := 0; b < 8*len(ine.Ext); b++ {
				q := p
				q.in.Ext, q.family, q.note = flip(ine.Ext, b), "extensions", fmt.Sprintf("extensions bit %d", b)
				run(k, q)
			}
			// another certificate than the one the SCT was issued for
			p = hon
			p.chain, p.in.Cert, p.family, p.note = []*x509.Certificate{leaf2}, leaf2.Raw, "x509_entry", "SCT presented with a different certificate"
			run(k, p)
			p = hon
			p.chain, p.in.Cert, p.family, p.note = []*x509.Certificate{ca}, ca.Raw, "x509_entry", "SCT presented with the issuer certificate"
			run(k, p)
			for b := 0; b < 64; b++ {
				p = hon
				flipU64(&p.in.Timestamp, b)
				p.family, p.note = "timestamp", fmt.Sprintf("timestamp bit %d", b)
				run(k, p)
			}
			for b := 0; b < 8; b++ {
				p = hon
				p.in.Version ^= 0x80 >> uint(b)
				p.family, p.note = "sct_version", fmt.Sprintf("version bit %d", b)
				run(k, p)
				p = hon
				p.h ^= 0x80 >> uint(b)
				p.family, p.note = "hash_code", fmt.Sprintf("hash code bit %d", b)
				run(k, p)
				p = hon
				p.s ^= 0x80 >> uint(b)
				p.family, p.note = "signature_code", fmt.Sprintf("signature code bit %d", b)
				run(k, p)
			}
			if full {
				for b := 0; b < 8*len(leaf.Raw); b++ {
					raw := flip(leaf.Raw, b)
					p = hon
					p.chain, p.in.Cert, p.family, p.note = []*x509.Certificate{withRaw(leaf, raw)}, raw, "x509_entry", fmt.Sprintf("certificate bit %d", b)
					run(k, p)
				}
				for b := 0; b < 8*len(sig); b++ {
					p = hon
					p.sig, p.family, p.note = flip(sig, b), "signature_value", fmt.Sprintf("signature bit %d", b)
					run(k, p)
				}
			}
			for _, o := range c.keys {
				if o != k {
					p = hon
					p.family, p.note = "key", "SCT signed by "+k.name
					p.s = k.code
					run(o, p)
				}
			}
		})
		jobs = append(jobs, func() {
			// precert entry: issuer_key_hash = SHA-256 of the issuer's SubjectPublicKeyInfo, tbs = TBSCertificate without the poison
			in := sctInput{Timestamp: 0x0000018bcfe56803, EntryType: 1, IKH: caSPKI[:], TBS: finalTBS, Ext: []byte{}}
			data, _ := encSCTInput(in)
			sig := c.honestSig(k, 4, data)
			hon := pres{chain: []*x509.Certificate{pre, ca}, in: in, h: 4, s: k.code, sig: sig, family: "honest", note: "honest precert SCT, chain = [precert, issuer]"}
			run(k, hon)
			p := hon
			p.chain, p.in.IKH, p.family, p.note = []*x509.Certificate{pre, cab}, cabSPKI[:], "issuer_key_hash", "precert SCT presented with a different issuer"
			run(k, p)
			// an SCT issued for the precertificate as an x509 entry over its DER (with poison) is not a valid precert SCT
			inx := sctInput{Timestamp: in.Timestamp, EntryType: 0, Cert: pre.Raw, Ext: []byte{}}
			dx, _ := encSCTInput(inx)
			p = hon
			p.sig, p.family, p.note = c.honestSig(k, 4, dx), "entry_type", "log signed the precertificate as an x509_entry"
			run(k, p)
			// and one over the precert TBS with the poison still inside
			inp := in
			inp.TBS = tbsOf(pre.Raw)
			dp, _ := encSCTInput(inp)
			p = hon
			p.sig, p.family, p.note = c.honestSig(k, 4, dp), "tbs_certificate", "log signed the TBSCertificate including the poison extension"
			run(k, p)
			for b := 0; b < 64; b++ {
				p = hon
				flipU64(&p.in.Timestamp, b)
				p.family, p.note = "timestamp", fmt.Sprintf("timestamp bit %d", b)
				run(k, p)
			}
			if full {
				for b := 0; b < 8*len(sig); b++ {
					p = hon
					p.sig, p.family, p.note = flip(sig, b), "signature_value", fmt.Sprintf("signature bit %d", b)
					run(k, p)
				}
			}
		})
	}
	done := enum.ParFor(len(jobs), c.r.Expired, func(i int) {
		if pan, msg, stack := enum.Catch(jobs[i]); pan {
			c.r.Violation("harness-panic", msg+"\n"+stack, i)
		}
	})
	if !done {
		c.r.Capped("deadline reached in the certificate-path enumeration")
	}

	// LogInfoByKeyHash over a verified signed list: list -> verifier map -> SCT check
	ops := [][]llLog{{{"log p256", c.by["p256"]}, {"log rsa2048", c.by["rsa2048"]}}, {{"log p256b", c.by["p256b"]}, {"log rsa3072", c.by["rsa3072"]}}}
	js := logListJSON(ops)
	signer := c.by["rsa2048b"]
	ll, err := loglist3.NewFromSignedJSON(js, c.honestSig(signer, 4, js), signer.pub)
	if err == nil {
		m, err := ctutil.LogInfoByKeyHash(ll, nil)
		c.r.Eval(1)
		if err != nil || len(m) != 4 {
			c.r.Violation("LogInfoByKeyHash: compliant list refused", fmt.Sprint(err), string(js))
		} else {
			for _, logs := range ops {
				for _, l := range logs {
					id := sha256.Sum256(l.k.spki)
					li := m[id]
					for _, signerKey := range []*key{l.k, c.by["p256"], c.by["rsa2048"]} {
						o := c.leafSCT(signerKey, 4, leaf.Raw)
						data, _ := encSCTInput(o.in)
						stage := refVerify(l.k.pub, o.h, o.s, data, o.sig)
						sct, entry := o.toLib()
						if li == nil {
							c.r.Violation("LogInfoByKeyHash: log missing from the map", l.k.name, nil)
							continue
						}
						c.judge("LogInfoByKeyHash+VerifySCTSignature", "key", l.k, o.h, o.s, data, o.sig, stage,
							func() error { return li.VerifySCTSignature(sct, entry.Leaf) }, "SCT signed by "+signerKey.name)
					}
				}
			}
		}
	}
	// a list naming a log with a non-compliant key cannot be turned into verifiers
	for _, bad := range []string{"rsa1024", "p384", "p521", "p224", "dsa1024", "ed25519"} {
		bops := [][]llLog{{{"log p256", c.by["p256"]}, {"bad", c.by[bad]}}}
		ll, err := loglist3.NewFromJSON(logListJSON(bops))
		if err != nil {
			panic(err)
		}
		var m ctutil.LogInfoByHash
		pan, msg, _ := enum.Catch(func() { m, err = ctutil.LogInfoByKeyHash(ll, nil) })
		c.r.Eval(1)
		c.r.Nontrivial("loginfobykeyhash|" + bad)
		if pan || err == nil {
			c.r.Violation("LogInfoByKeyHash: policy key="+keyClass(bad), fmt.Sprintf("list with a %s log key: panic=%v %s err=%v map=%d", bad, pan, msg, err, len(m)), bad)
		}
	}
}

func TestCheck(t *testing.T) {
	log.SetOutput(io.Discard) // the library logs every "garbage following signature"
	r := rep.New("C05", "exploration")
	c := &checker{r: r, by: map[string]*key{}, ver: map[string]*ct.SignatureVerifier{}, honest: map[string][]byte{}, certs: loadCerts()}
	for _, n := range keyNames {
		k := loadKey(n)
		c.keys = append(c.keys, k)
		c.by[n] = k
	}
	// extra keys used only as certificate issuers
	for _, n := range []string{"ca", "cab"} {
		c.by[n] = loadKey(n)
	}
	r.Rule("stored keys {RSA-1024/2048/2048b/3072, P-224/256/256b/384/521, DSA-1024/160, Ed25519} x: (1) NewSignatureVerifier / NewLogInfo / VerifySCT construction for every key, synthetic RSA moduli of 512..4096 bits and 8 non-key values x opt-in {false,true}; " +
		"(2) all 256x256 (hash, signature) codes x honest signatures made under each of the 6 defined hashes, directly and through a serialized DigitallySigned; " +
		"(3) honest SCT(x509), SCT(precert), STH objects for every key x 6 hashes, every single-bit flip of every signed fixed-width field and of 16-byte entry / extensions payloads, every +-1 / shorten / extend / empty / boundary-shift field mutation, unsigned fields (log id, leaf timestamp), algorithm codes, every bit of the signature value; the reverse direction (the log signed any single-bit variant of the canonical bytes, a truncated/extended variant, the digest, the other structure); length-prefix boundary shapes 1..70000 x 0..65535; " +
		"(4) ~150 DER malformations (trailing bytes outside / inside the SEQUENCE, every proper prefix, r or s zero / negated / +-order / swapped / non-minimal / unsigned, non-minimal, indefinite and huge lengths, wrong tags) + every bit flip of ECDSA/DSA values, RSA numeric edge values, every header bit / truncation / extension of a serialized DigitallySigned; (5) every signer x verifier key pair; (6) signed log list: every JSON bit, every signature bit, byte-level edits, wrong key, wrong hash; " +
		"(7) ctutil.VerifySCT / VerifySCTWithVerifier / LogInfo over stored real certificates (x509 and precert chains): every certificate bit, signature bit, timestamp bit, wrong certificate / issuer / key. thorough adds: all keys x all hashes at bit level, all pairs of single field/code mutations on the P-256, RSA-2048 and P-384 objects, pairs of bit flips in the DER header. " +
		"distinct_nontrivial = distinct cases in which the reference got as far as the cryptographic primitive (defined hash, signature code matching the key type, well-formed DER) plus all construction cases")
	r.Assume(
		"trusted base: Go standard library crypto (ecdsa.Verify, dsa.Verify, rsa.VerifyPKCS1v15, the hash functions) and math/big; the reference never calls the repository",
		"reference validity: hash code in 1..6 (md5, sha1, sha224, sha256, sha384, sha512 of the RFC 5246 registry; none(0) and 7..255 are invalid), signature code equals the key's type (rsa=1 for *rsa.PublicKey, dsa=2 for *dsa.PublicKey, ecdsa=3 for *ecdsa.PublicKey; anonymous(0) and 4..255 invalid), and the primitive accepts; the library supports all six hashes, so 'valid but unsupported' does not arise",
		"an ECDSA/DSA value is SEQUENCE{INTEGER r, INTEGER s} in strict DER (definite minimal lengths, minimal integers, nothing else inside the SEQUENCE); bytes after the SEQUENCE are ignored; r, s must be positive; a malleable (r, n-s) twin is valid because the primitive accepts it",
		"SCT signed bytes use the SCT's own version, timestamp and extensions and the entry's type and certificate/precert; log id, leaf timestamp and leaf extensions are not signed (RFC 6962 3.2), so changing them must not change the verdict; versions other than v1 and entry types other than x509/precert are not defined and must fail",
		"the LogEntry handed to VerifySCTSignature is shaped as tls.Unmarshal would produce it (TimestampedEntry non-nil, exactly the selected arm non-nil); Go-level nil pointers inside LogEntry are outside the property's input space",
		"NewFromSignedJSON: algorithm is (sha256, key type) by definition; only RSA and ECDSA keys are supported by its documentation, any other key must yield an error; it applies no key-size policy (it builds no SignatureVerifier)",
		"construction policy: compliant = *rsa.PublicKey with modulus >= 2048 bits or *ecdsa.PublicKey on the standard library's P-256; other *rsa / *ecdsa keys only with AllowVerificationWithNonCompliantKeys; every other Go value never",
		"precert path: the expected TBSCertificate is taken from a stored twin certificate issued from the same template without the poison extension (no pre-issuer chains; embedded SCTs are out of scope here)")
	phases := map[string]float64{}
	for _, ph := range []struct {
		name string
		f    func()
	}{{"construction", c.construction}, {"code_pairs", c.codePairs}, {"objects", c.objects}, {"signature_values", c.derPhase},
		{"cross_keys", c.crossKeys}, {"log_lists", c.logLists}, {"certificate_paths", c.certPaths}} {
		t0 := time.Now()
		ph.f()
		phases[ph.name] = float64(int(time.Since(t0).Seconds()*10)) / 10
	}
	fmt.Println("phase seconds:", phases)
	names := []string{}
	for _, k := range c.keys {
		names = append(names, k.name)
	}
	sort.Strings(names)
	r.Set("keys", names)
	per := map[string]any{}
	c.perAPI.Range(func(k, v any) bool {
		a := v.(*[2]atomic.Int64)
		per[k.(string)] = map[string]int64{"cases": a[0].Load(), "reference_accepts": a[1].Load()}
		return true
	})
	r.Set("per_api", per)
	r.Finish()
}
