package c05

// Independent reference side of the C05 check. Everything in this file is
// written from RFC 5246 (section 4: presentation language, 4.7 DigitallySigned,
// 7.4.1.4.1 algorithm registries), RFC 6962 (3.2 SCT signature input, 3.5 STH
// signature input) and X.690 (DER), never from the code under test, and uses
// only the Go standard library. No function of the repository is called here.

import (
	"crypto"
	"crypto/dsa"
	"crypto/ecdsa"
	"crypto/ed25519"
	"crypto/md5"
	"crypto/rsa"
	"crypto/sha1"
	"crypto/sha256"
	"crypto/sha512"
	"errors"
	"math/big"
)

// ---------------------------------------------------------------------------
// RFC 5246 section 4 presentation language: big-endian integers, opaque vectors
// with a length prefix wide enough for the declared ceiling.

func u8(b []byte, v uint8) []byte   { return append(b, v) }
func u16(b []byte, v uint16) []byte { return append(b, byte(v>>8), byte(v)) }
func u24(b []byte, v uint32) []byte { return append(b, byte(v>>16), byte(v>>8), byte(v)) }
func u64(b []byte, v uint64) []byte {
	return append(b, byte(v>>56), byte(v>>48), byte(v>>40), byte(v>>32), byte(v>>24), byte(v>>16), byte(v>>8), byte(v))
}

var errBounds = errors.New("ref: vector length outside its declared bounds")

// opaque<min..2^16-1>
func vec16(b, data []byte, min int) ([]byte, error) {
	if len(data) < min || len(data) > 0xffff {
		return nil, errBounds
	}
	return append(u16(b, uint16(len(data))), data...), nil
}

// opaque<min..2^24-1>
func vec24(b, data []byte, min int) ([]byte, error) {
	if len(data) < min || len(data) > 0xffffff {
		return nil, errBounds
	}
	return append(u24(b, uint32(len(data))), data...), nil
}

// ---------------------------------------------------------------------------
// RFC 6962 section 3.2:
//
//	digitally-signed struct {
//	    Version sct_version;                 // v1(0), 1 byte
//	    SignatureType signature_type = certificate_timestamp;   // 0, 1 byte
//	    uint64 timestamp;
//	    LogEntryType entry_type;             // x509_entry(0), precert_entry(1), 2 bytes
//	    select(entry_type) {
//	        case x509_entry: ASN.1Cert;      // opaque<1..2^24-1>
//	        case precert_entry: PreCert;     // opaque issuer_key_hash[32]; opaque tbs<1..2^24-1>
//	    } signed_entry;
//	    CtExtensions extensions;             // opaque<0..2^16-1>
//	};
type sctInput struct {
	Version   uint8
	SigType   uint8
	Timestamp uint64
	EntryType uint16
	Cert      []byte // x509_entry
	IKH       []byte // precert_entry, must be 32 bytes
	TBS       []byte // precert_entry
	Ext       []byte
}

var errUndefined = errors.New("ref: value not defined by RFC 6962")

func encSCTInput(x sctInput) ([]byte, error) {
	if x.Version != 0 {
		return nil, errUndefined
	}
	b := u8(nil, x.Version)
	b = u8(b, x.SigType)
	b = u64(b, x.Timestamp)
	b = u16(b, x.EntryType)
	var err error
	switch x.EntryType {
	case 0:
		if b, err = vec24(b, x.Cert, 1); err != nil {
			return nil, err
		}
	case 1:
		if len(x.IKH) != 32 {
			return nil, errBounds
		}
		b = append(b, x.IKH...)
		if b, err = vec24(b, x.TBS, 1); err != nil {
			return nil, err
		}
	default:
		return nil, errUndefined
	}
	return vec16(b, x.Ext, 0)
}

// RFC 6962 section 3.5:
//
//	digitally-signed struct {
//	    Version version;                     // v1(0)
//	    SignatureType signature_type = tree_hash;   // 1
//	    uint64 timestamp;
//	    uint64 tree_size;
//	    opaque sha256_root_hash[32];
//	} TreeHeadSignature;
type sthInput struct {
	Version   uint8
	SigType   uint8
	Timestamp uint64
	TreeSize  uint64
	Root      []byte // 32 bytes
}

func encSTHInput(x sthInput) ([]byte, error) {
	if x.Version != 0 {
		return nil, errUndefined
	}
	if len(x.Root) != 32 {
		return nil, errBounds
	}
	b := u8(nil, x.Version)
	b = u8(b, x.SigType)
	b = u64(b, x.Timestamp)
	b = u64(b, x.TreeSize)
	return append(b, x.Root...), nil
}

// RFC 5246 section 4.7 / 7.4.1.4.1:
//
//	struct { HashAlgorithm hash; SignatureAlgorithm signature; } SignatureAndHashAlgorithm;  // 1 + 1 bytes
//	struct { SignatureAndHashAlgorithm algorithm; opaque signature<0..2^16-1>; } DigitallySigned;
func encDS(h, s uint8, sig []byte) []byte {
	b := []byte{h, s}
	b = u16(b, uint16(len(sig)))
	return append(b, sig...)
}

// decDS decodes exactly one DigitallySigned occupying all of b.
func decDS(b []byte) (h, s uint8, sig []byte, ok bool) {
	if len(b) < 4 {
		return 0, 0, nil, false
	}
	n := int(b[2])<<8 | int(b[3])
	if len(b) != 4+n {
		return 0, 0, nil, false
	}
	return b[0], b[1], b[4:], true
}

// ---------------------------------------------------------------------------
// X.690 DER reader for  SEQUENCE { INTEGER r, INTEGER s }  (Ecdsa-Sig-Value,
// Dss-Sig-Value). Strict DER: definite minimal lengths, minimal two's
// complement integers, nothing else inside the SEQUENCE. Bytes after the
// complete SEQUENCE are ignored, as the property states.

func derTLV(b []byte, tag byte) (content, rest []byte, ok bool) {
	if len(b) < 2 || b[0] != tag {
		return nil, nil, false
	}
	n, off := int(b[1]), 2
	if n >= 0x80 {
		k := n & 0x7f
		if k == 0 || k > 3 || len(b) < 2+k || b[2] == 0 { // indefinite, absurdly long, truncated, leading zero
			return nil, nil, false
		}
		n = 0
		for _, c := range b[2 : 2+k] {
			n = n<<8 | int(c)
		}
		if n < 0x80 { // long form used where the short form fits
			return nil, nil, false
		}
		off = 2 + k
	}
	if len(b)-off < n {
		return nil, nil, false
	}
	return b[off : off+n], b[off+n:], true
}

func derInt(c []byte) (*big.Int, bool) {
	if len(c) == 0 {
		return nil, false
	}
	if len(c) > 1 && ((c[0] == 0x00 && c[1]&0x80 == 0) || (c[0] == 0xff && c[1]&0x80 != 0)) {
		return nil, false // not minimal
	}
	v := new(big.Int).SetBytes(c)
	if c[0]&0x80 != 0 { // negative: two's complement
		v.Sub(v, new(big.Int).Lsh(big.NewInt(1), uint(8*len(c))))
	}
	return v, true
}

func derRS(sig []byte) (r, s *big.Int, ok bool) {
	seq, _, ok := derTLV(sig, 0x30) // trailing bytes ignored
	if !ok {
		return nil, nil, false
	}
	rc, rest, ok := derTLV(seq, 0x02)
	if !ok {
		return nil, nil, false
	}
	sc, rest, ok := derTLV(rest, 0x02)
	if !ok || len(rest) != 0 {
		return nil, nil, false
	}
	if r, ok = derInt(rc); !ok {
		return nil, nil, false
	}
	if s, ok = derInt(sc); !ok {
		return nil, nil, false
	}
	return r, s, true
}

// ---------------------------------------------------------------------------
// The reference acceptance predicate.

// refHash maps an RFC 5246 HashAlgorithm code to a digest of data. Codes:
// none(0) md5(1) sha1(2) sha224(3) sha256(4) sha384(5) sha512(6).
func refHash(code uint8, data []byte) ([]byte, crypto.Hash, bool) {
	switch code {
	case 1:
		d := md5.Sum(data)
		return d[:], crypto.MD5, true
	case 2:
		d := sha1.Sum(data)
		return d[:], crypto.SHA1, true
	case 3:
		d := sha256.Sum224(data)
		return d[:], crypto.SHA224, true
	case 4:
		d := sha256.Sum256(data)
		return d[:], crypto.SHA256, true
	case 5:
		d := sha512.Sum384(data)
		return d[:], crypto.SHA384, true
	case 6:
		d := sha512.Sum512(data)
		return d[:], crypto.SHA512, true
	}
	return nil, 0, false
}

// Reference verdict stages (why the reference rejects, or "accept").
const (
	stAccept    = "accept"
	stHash      = "hash-code-undefined"
	stSigAlg    = "signature-code-undefined"
	stKeyType   = "key-type-mismatch"
	stDER       = "der-malformed"
	stNonPos    = "r-or-s-not-positive"
	stPrimitive = "primitive-rejects"
)

// refVerify decides whether sig is a valid signature by pub over data under the
// declared RFC 5246 (hash, signature) codes. SignatureAlgorithm codes:
// anonymous(0) rsa(1) dsa(2) ecdsa(3). reached reports whether the decision was
// taken by the cryptographic primitive (i.e. every syntactic gate was passed).
func refVerify(pub any, h, s uint8, data, sig []byte) (stage string) {
	digest, ch, ok := refHash(h, data)
	if !ok {
		return stHash
	}
	switch s {
	case 1:
		k, ok := pub.(*rsa.PublicKey)
		if !ok {
			return stKeyType
		}
		if rsa.VerifyPKCS1v15(k, ch, digest, sig) != nil {
			return stPrimitive
		}
		return stAccept
	case 2, 3:
		var dk *dsa.PublicKey
		var ek *ecdsa.PublicKey
		if s == 2 {
			if dk, ok = pub.(*dsa.PublicKey); !ok {
				return stKeyType
			}
		} else {
			if ek, ok = pub.(*ecdsa.PublicKey); !ok {
				return stKeyType
			}
		}
		r, sv, ok := derRS(sig)
		if !ok {
			return stDER
		}
		if r.Sign() <= 0 || sv.Sign() <= 0 {
			return stNonPos
		}
		if s == 2 {
			// FIPS 186-3 4.6/4.7: z = the leftmost min(N, outlen) bits of the digest. crypto/dsa
			// documents that it leaves this truncation to the caller (N is a multiple of 8 there).
			if n := (dk.Q.BitLen() + 7) / 8; len(digest) > n {
				digest = digest[:n]
			}
			if !dsa.Verify(dk, digest, r, sv) {
				return stPrimitive
			}
		} else if !ecdsa.Verify(ek, digest, r, sv) {
			return stPrimitive
		}
		return stAccept
	}
	return stSigAlg
}

func reached(stage string) bool {
	return stage == stAccept || stage == stPrimitive || stage == stNonPos
}

// ---------------------------------------------------------------------------
// Test-side signers. Deterministic (the nonce is derived from the key and the
// digest) so that two runs enumerate byte-identical cases. Their output is
// never trusted: every honest signature is first put to refVerify, and the
// harness aborts if the standard library does not accept it.

// derIntTLV encodes v as a DER INTEGER (minimal two's complement).
func derIntTLV(v *big.Int) []byte {
	var c []byte
	if v.Sign() >= 0 {
		c = v.Bytes()
		if len(c) == 0 || c[0]&0x80 != 0 {
			c = append([]byte{0}, c...)
		}
	} else {
		n := len(v.Bytes()) + 1
		t := new(big.Int).Add(v, new(big.Int).Lsh(big.NewInt(1), uint(8*n)))
		c = t.Bytes()
		for len(c) < n {
			c = append([]byte{0xff}, c...)
		}
		for len(c) > 1 && c[0] == 0xff && c[1]&0x80 != 0 {
			c = c[1:]
		}
	}
	return derWrap(0x02, c)
}

func encRS(r, s *big.Int) []byte {
	return derWrap(0x30, append(derIntTLV(r), derIntTLV(s)...))
}

func derLen(n int) []byte {
	switch {
	case n < 0x80:
		return []byte{byte(n)}
	case n < 0x100:
		return []byte{0x81, byte(n)}
	default:
		return []byte{0x82, byte(n >> 8), byte(n)}
	}
}

func derWrap(tag byte, content []byte) []byte {
	return append(append([]byte{tag}, derLen(len(content))...), content...)
}

func bitsToInt(digest []byte, n *big.Int) *big.Int {
	ol := (n.BitLen() + 7) / 8
	if len(digest) > ol {
		digest = digest[:ol]
	}
	e := new(big.Int).SetBytes(digest)
	if ex := len(digest)*8 - n.BitLen(); ex > 0 {
		e.Rsh(e, uint(ex))
	}
	return e
}

func nonce(secret *big.Int, digest []byte, n *big.Int, ctr byte) *big.Int {
	h := sha512.New()
	h.Write([]byte("verif c05 nonce"))
	h.Write(secret.Bytes())
	h.Write(digest)
	var out []byte
	for i := byte(0); len(out) < (n.BitLen()+7)/8+8; i++ {
		g := sha512.Sum512(append(h.Sum(nil), ctr, i))
		out = append(out, g[:]...)
	}
	k := new(big.Int).SetBytes(out)
	k.Mod(k, new(big.Int).Sub(n, big.NewInt(1)))
	return k.Add(k, big.NewInt(1))
}

func signECDSA(priv *ecdsa.PrivateKey, digest []byte) (r, s *big.Int) {
	n := priv.Curve.Params().N
	e := bitsToInt(digest, n)
	for ctr := byte(0); ; ctr++ {
		k := nonce(priv.D, digest, n, ctr)
		x, _ := priv.Curve.ScalarBaseMult(k.Bytes())
		r = new(big.Int).Mod(x, n)
		if r.Sign() == 0 {
			continue
		}
		s = new(big.Int).Mul(r, priv.D)
		s.Add(s, e)
		s.Mul(s, new(big.Int).ModInverse(k, n))
		s.Mod(s, n)
		if s.Sign() != 0 {
			return r, s
		}
	}
}

// signDSA: FIPS 186-3 4.6, z = the leftmost min(N, outlen) bits of the digest.
func signDSA(priv *dsa.PrivateKey, digest []byte) (r, s *big.Int) {
	return signDSAz(priv, bitsToInt(digest, priv.Q), digest)
}

// signDSAz signs the given integer z (normally derived from the digest).
func signDSAz(priv *dsa.PrivateKey, e *big.Int, digest []byte) (r, s *big.Int) {
	q := priv.Q
	for ctr := byte(0); ; ctr++ {
		k := nonce(priv.X, digest, q, ctr)
		r = new(big.Int).Exp(priv.G, k, priv.P)
		r.Mod(r, q)
		if r.Sign() == 0 {
			continue
		}
		s = new(big.Int).Mul(r, priv.X)
		s.Add(s, e)
		s.Mul(s, new(big.Int).ModInverse(k, q))
		s.Mod(s, q)
		if s.Sign() != 0 {
			return r, s
		}
	}
}

// sign produces the signature value a log holding priv would put into a
// DigitallySigned with hash code h over data.
func sign(priv any, h uint8, data []byte) []byte {
	digest, ch, ok := refHash(h, data)
	if !ok {
		panic("harness: sign with undefined hash code")
	}
	switch k := priv.(type) {
	case *rsa.PrivateKey:
		sig, err := rsa.SignPKCS1v15(nil, k, ch, digest)
		if err != nil {
			panic(err)
		}
		return sig
	case *ecdsa.PrivateKey:
		return encRS(signECDSA(k, digest))
	case *dsa.PrivateKey:
		return encRS(signDSA(k, digest))
	case ed25519.PrivateKey:
		return ed25519.Sign(k, data)
	}
	panic("harness: unknown private key type")
}

// signDigestWith signs data under an arbitrary registered crypto.Hash (also ones RFC 5246 gives no
// code to), the way a key holder could if a verifier mapped undefined code points to such a hash.
func signDigestWith(priv any, ch crypto.Hash, data []byte) ([]byte, bool) {
	if !ch.Available() {
		return nil, false
	}
	hh := ch.New()
	hh.Write(data)
	digest := hh.Sum(nil)
	switch k := priv.(type) {
	case *rsa.PrivateKey:
		sig, err := rsa.SignPKCS1v15(nil, k, ch, digest)
		if err != nil {
			return nil, false
		}
		return sig, true
	case *ecdsa.PrivateKey:
		return encRS(signECDSA(k, digest)), true
	case *dsa.PrivateKey:
		return encRS(signDSA(k, digest)), true
	}
	return nil, false
}
