package c05

// Loading of the stored test keys and certificates (/verif/testdata/keys, made
// once by testdata/keys/gen). Standard library only.

import (
	"crypto/dsa"
	"crypto/ecdsa"
	"crypto/ed25519"
	"crypto/rsa"
	stdx509 "crypto/x509"
	"encoding/asn1"
	"encoding/pem"
	"math/big"
	"os"
	"path/filepath"
)

const keyDir = "/verif/testdata/keys"

// key is one stored key pair.
type key struct {
	name string
	priv any    // *rsa.PrivateKey, *ecdsa.PrivateKey, *dsa.PrivateKey, ed25519.PrivateKey
	pub  any    // *rsa.PublicKey, *ecdsa.PublicKey, *dsa.PublicKey, ed25519.PublicKey
	spki []byte // DER SubjectPublicKeyInfo
	code uint8  // RFC 5246 SignatureAlgorithm of the key type: rsa(1) dsa(2) ecdsa(3); 0 = none defined
	// RFC 6962 section 2.1.4: "a log MUST use either NIST P-256 ECDSA or RSA (>= 2048 bits)".
	defined   bool // key type defined by RFC 6962 (RSA or ECDSA)
	compliant bool // defined and of a permitted size/curve
	slow      bool // verification costs >= 0.3 ms
}

func readPEM(name string) []byte {
	b, err := os.ReadFile(filepath.Join(keyDir, name))
	if err != nil {
		panic(err)
	}
	p, _ := pem.Decode(b)
	if p == nil {
		panic("no PEM in " + name)
	}
	return p.Bytes
}

func loadKey(name string) *key {
	k := &key{name: name, spki: readPEM(name + ".pub.pem")}
	if name == "dsa1024" {
		var d struct {
			Version       int
			P, Q, G, Y, X *big.Int
		}
		if _, err := asn1.Unmarshal(readPEM(name+".pem"), &d); err != nil {
			panic(err)
		}
		p := &dsa.PrivateKey{PublicKey: dsa.PublicKey{Parameters: dsa.Parameters{P: d.P, Q: d.Q, G: d.G}, Y: d.Y}, X: d.X}
		k.priv, k.pub, k.code = p, &p.PublicKey, 2
		k.slow = true
		return k
	}
	priv, err := stdx509.ParsePKCS8PrivateKey(readPEM(name + ".pem"))
	if err != nil {
		panic(err)
	}
	k.priv = priv
	switch p := priv.(type) {
	case *rsa.PrivateKey:
		k.pub, k.code, k.defined = &p.PublicKey, 1, true
		k.compliant = p.N.BitLen() >= 2048
	case *ecdsa.PrivateKey:
		k.pub, k.code, k.defined = &p.PublicKey, 3, true
		k.compliant = p.Curve.Params().Name == "P-256"
		k.slow = p.Curve.Params().Name != "P-256"
	case ed25519.PrivateKey:
		k.pub = p.Public().(ed25519.PublicKey)
	default:
		panic("unexpected key type in " + name)
	}
	return k
}

func loadCerts() map[string][]byte {
	b, err := os.ReadFile(filepath.Join(keyDir, "certs.pem"))
	if err != nil {
		panic(err)
	}
	out := map[string][]byte{}
	for {
		var p *pem.Block
		p, b = pem.Decode(b)
		if p == nil {
			break
		}
		out[p.Headers["name"]] = p.Bytes
	}
	return out
}

// Order is fixed: it is the enumeration order.
var keyNames = []string{"rsa1024", "rsa2048", "rsa2048b", "rsa3072", "p224", "p256", "p256b", "p384", "p521", "dsa1024", "ed25519"}
