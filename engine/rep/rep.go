// Package rep is the reporting side of every check: it counts what a run
// covered, de-duplicates and records violations (with replay files), matches
// them against /verif/known_findings.json, writes /verif/evidence/<id>.json and
// decides the exit status.
package rep

import (
	"crypto/sha256"
	"encoding/hex"
	"encoding/json"
	"fmt"
	"os"
	"path/filepath"
	"sort"
	"strconv"
	"strings"
	"sync"
	"sync/atomic"
	"time"
)

const Root = "/verif"

// OutRoot is where evidence/ and replays/ are written: /verif, or $VERIF_OUT for
// self-test runs against deliberately broken trees (which must not overwrite the
// evidence of the unchanged tree).
func OutRoot() string {
	if d := os.Getenv("VERIF_OUT"); d != "" {
		return d
	}
	return Root
}

// R collects the results of one run of one property check.
type R struct {
	Prop  string
	Level string
	tier  string
	seed  int64
	start time.Time
	dl    time.Time

	evals atomic.Int64

	mu         sync.Mutex
	distinct   map[[8]byte]struct{}
	samples    []any
	maxSamples int
	extra      map[string]any
	rule       string
	assume     []string
	exhaustive bool
	capped     []string
	viol       map[string]*violation // by signature
	violOrder  []string
	known      map[string]string // signature -> description
	knownHit   map[string]bool
	replaySig  string
}

type violation struct {
	Sig    string `json:"signature"`
	Desc   string `json:"description"`
	Case   any    `json:"case"`
	Count  int    `json:"count"`
	Replay string `json:"replay"`
}

type knownFile struct {
	Findings []struct {
		Property  string `json:"property"`
		Signature string `json:"signature"`
		What      string `json:"what"`
	} `json:"findings"`
}

// New starts a report for property id at the given evidence level.
func New(prop, level string) *R {
	r := &R{Prop: prop, Level: level, start: time.Now(), distinct: map[[8]byte]struct{}{},
		extra: map[string]any{}, viol: map[string]*violation{}, known: map[string]string{},
		knownHit: map[string]bool{}, maxSamples: 6, exhaustive: true}
	r.tier = os.Getenv("VERIF_TIER")
	if r.tier != "thorough" {
		r.tier = "quick"
	}
	if s := os.Getenv("VERIF_SEED"); s != "" {
		r.seed, _ = strconv.ParseInt(s, 10, 64)
	}
	budget := 150 * time.Second
	if r.tier == "thorough" {
		budget = 25 * time.Minute
	}
	if s := os.Getenv("VERIF_BUDGET_S"); s != "" {
		if n, err := strconv.Atoi(s); err == nil {
			budget = time.Duration(n) * time.Second
		}
	}
	r.dl = r.start.Add(budget)
	r.replaySig = os.Getenv("VERIF_REPLAY_SIG")
	if b, err := os.ReadFile(filepath.Join(Root, "known_findings.json")); err == nil {
		var kf knownFile
		if json.Unmarshal(b, &kf) == nil {
			for _, f := range kf.Findings {
				if f.Property == prop {
					r.known[f.Signature] = f.What
				}
			}
		}
	}
	return r
}

func (r *R) Tier() string   { return r.tier }
func (r *R) Thorough() bool { return r.tier == "thorough" }
func (r *R) Seed() int64    { return r.seed }

// Expired reports whether the run's internal deadline has passed. A loop that
// stops because of it must call Capped so the evidence says exhaustive:false.
func (r *R) Expired() bool { return time.Now().After(r.dl) }

// Capped records that some part of the space was not completed.
func (r *R) Capped(what string) {
	r.mu.Lock()
	defer r.mu.Unlock()
	r.exhaustive = false
	for _, c := range r.capped {
		if c == what {
			return
		}
	}
	r.capped = append(r.capped, what)
}

// Eval counts n evaluated cases.
func (r *R) Eval(n int) { r.evals.Add(int64(n)) }

// Nontrivial records one case that is non-trivial by the check's rule; key
// identifies the case (distinct keys are counted).
func (r *R) Nontrivial(key string) {
	h := sha256.Sum256([]byte(key))
	var k [8]byte
	copy(k[:], h[:8])
	r.mu.Lock()
	r.distinct[k] = struct{}{}
	r.mu.Unlock()
}

// Sample keeps v as one of a few written-out example cases.
func (r *R) Sample(v any) {
	r.mu.Lock()
	if len(r.samples) < r.maxSamples {
		r.samples = append(r.samples, v)
	}
	r.mu.Unlock()
}

func (r *R) WantSample() bool {
	r.mu.Lock()
	defer r.mu.Unlock()
	return len(r.samples) < r.maxSamples
}

func (r *R) Rule(s string)      { r.mu.Lock(); r.rule = s; r.mu.Unlock() }
func (r *R) Assume(s ...string) { r.mu.Lock(); r.assume = append(r.assume, s...); r.mu.Unlock() }

// Set records an extra coverage key.
func (r *R) Set(k string, v any) { r.mu.Lock(); r.extra[k] = v; r.mu.Unlock() }

// Add adds n to an integer coverage key.
func (r *R) Add(k string, n int64) {
	r.mu.Lock()
	c, _ := r.extra[k].(int64)
	r.extra[k] = c + n
	r.mu.Unlock()
}

// Violation records a property violation. sig is a stable signature naming
// *what* fails (it is what known_findings.json is matched against and what
// de-duplicates thousands of cases failing for one reason); desc explains this
// instance; c is the replayable case.
func (r *R) Violation(sig, desc string, c any) {
	r.mu.Lock()
	defer r.mu.Unlock()
	if v, ok := r.viol[sig]; ok {
		v.Count++
		return
	}
	r.viol[sig] = &violation{Sig: sig, Desc: desc, Case: c, Count: 1}
	r.violOrder = append(r.violOrder, sig)
}

// Violations returns the number of distinct violation signatures so far.
func (r *R) Violations() int { r.mu.Lock(); defer r.mu.Unlock(); return len(r.viol) }

// Finish writes the evidence file and replay files, prints the result lines
// and exits the process with the check's status.
func (r *R) Finish() {
	r.mu.Lock()
	defer r.mu.Unlock()
	wall := time.Since(r.start).Seconds()
	unknown := 0
	sort.Strings(r.violOrder)
	for _, sig := range r.violOrder {
		v := r.viol[sig]
		if what, ok := r.known[sig]; ok {
			r.knownHit[sig] = true
			fmt.Printf("KNOWN-FINDING: property=%s %s [%s] (%d cases)\n", r.Prop, what, sig, v.Count)
			continue
		}
		unknown++
		dir := filepath.Join(OutRoot(), "replays", r.Prop)
		os.MkdirAll(dir, 0o755)
		h := sha256.Sum256([]byte(sig))
		p := filepath.Join(dir, hex.EncodeToString(h[:6])+".json")
		v.Replay = p
		b, _ := json.MarshalIndent(map[string]any{"property": r.Prop, "tier": r.tier, "signature": sig,
			"description": v.Desc, "case": v.Case, "count": v.Count,
			"replay_cmd": fmt.Sprintf("./check %s --replay %s", strings.ToLower(r.Prop), p)}, "", " ")
		os.WriteFile(p, b, 0o644)
		if unknown <= 25 {
			fmt.Printf("VIOLATION property=%s replay=%s sig=%q cases=%d :: %s\n", r.Prop, p, sig, v.Count, oneLine(v.Desc))
		}
	}
	if unknown > 25 {
		fmt.Printf("... and %d more distinct violation signatures for %s\n", unknown-25, r.Prop)
	}
	cov := map[string]any{}
	for k, v := range r.extra {
		cov[k] = v
	}
	cov["evaluations"] = r.evals.Load()
	cov["distinct_nontrivial"] = len(r.distinct)
	cov["rule"] = r.rule
	if len(r.samples) == 0 {
		r.samples = append(r.samples, "no sample recorded")
	}
	cov["samples"] = r.samples
	cov["exhaustive"] = r.exhaustive
	if len(r.capped) > 0 {
		cov["capped"] = r.capped
	}
	kh := []string{}
	for s := range r.knownHit {
		kh = append(kh, s)
	}
	sort.Strings(kh)
	if len(kh) > 0 {
		cov["known_findings_met"] = kh
	}
	ev := map[string]any{"property_id": r.Prop, "tier": r.tier, "seed": r.seed, "level": r.Level,
		"coverage": cov, "assumptions": r.assume, "wall_s": wall, "violations": unknown}
	if r.replaySig == "" {
		b, _ := json.MarshalIndent(ev, "", " ")
		os.MkdirAll(filepath.Join(OutRoot(), "evidence"), 0o755)
		if err := os.WriteFile(filepath.Join(OutRoot(), "evidence", r.Prop+".json"), b, 0o644); err != nil {
			fmt.Println("cannot write evidence:", err)
			os.Exit(3)
		}
	}
	fmt.Printf("%s %s: evaluations=%d distinct_nontrivial=%d exhaustive=%v violations=%d wall=%.1fs\n",
		r.Prop, r.tier, r.evals.Load(), len(r.distinct), r.exhaustive, unknown, wall)
	if r.replaySig != "" {
		if _, ok := r.viol[r.replaySig]; ok {
			fmt.Printf("REPLAY: signature %q reproduced\n", r.replaySig)
			os.Exit(1)
		}
		fmt.Printf("REPLAY: signature %q did not reproduce\n", r.replaySig)
		os.Exit(0)
	}
	if unknown > 0 {
		os.Exit(1)
	}
	os.Exit(0)
}

func oneLine(s string) string {
	s = strings.ReplaceAll(s, "\n", " | ")
	if len(s) > 400 {
		s = s[:400] + "…"
	}
	return s
}

// Hex is a helper for case descriptions.
func Hex(b []byte) string {
	if len(b) > 96 {
		return fmt.Sprintf("%x…(%d bytes, sha256 %x)", b[:48], len(b), sha256.Sum256(b))
	}
	return hex.EncodeToString(b)
}
