//go:build go1.25

// Package gate is Engine A: a stateless, deviation-bounded depth-first explorer
// of the orders and contents of environment answers, run on the real concurrent
// code inside testing/synctest bubbles (virtual time, detection of "every other
// goroutine is durably blocked").
//
// One execution = one fresh bubble. The scenario's director code (the bubble's
// root goroutine) starts client goroutines that call the real API; everything the
// code under test talks to is a harness object whose methods call Env.Ask and
// block. At each quiescence (synctest.Wait) the director lists the enabled
// transitions and calls Exec.Choose; the explorer supplies the choice from the
// current choice vector (default: alternative 0) and later branches on every
// alternative whose accumulated deviation cost fits the bound.
package gate

import (
	"context"
	"crypto/sha256"
	"encoding/hex"
	"fmt"
	"os"
	"runtime"
	"runtime/debug"
	"sort"
	"strings"
	"sync"
	"sync/atomic"
	"testing"
	"testing/synctest"
	"time"
)

// Alt is one enabled transition at a decision point.
type Alt struct {
	Label string // content-addressed, stable across replays
	Cost  int    // deviation cost (0 for the default continuation)
}

// Pick is one element of a choice vector.
type Pick struct {
	Idx   int
	Label string
}

type point struct {
	alts   []Alt
	chosen int
}

type divergence struct{ msg string }

// Exec is one execution.
type Exec struct {
	pmu     sync.Mutex // guards points against the hang monitor, which reads them from outside the bubble
	prefix  []Pick
	points  []point
	viol    []Violation
	Outcome string // scenario-defined summary of what was observed (counted as distinct outcomes)
	Trace   []string
	noTrace bool
	div     *divergence
}

// Diverged reports that the replayed prefix did not match the enabled
// transitions; the scenario may finish early (after tearing down).
func (x *Exec) Diverged() bool { return x.div != nil }

type Violation struct {
	Sig, Desc string
}

// Choose is called by the director at a decision point with >= 1 alternatives.
func (x *Exec) Choose(alts []Alt) int {
	if len(alts) == 0 {
		panic("gate: Choose with no alternatives")
	}
	i := len(x.points)
	c := 0
	if i < len(x.prefix) {
		p := x.prefix[i]
		if p.Idx >= len(alts) || alts[p.Idx].Label != p.Label {
			var ls []string
			for _, a := range alts {
				ls = append(ls, a.Label)
			}
			// keep running to the end on the default continuation (the scenario must
			// be torn down properly); the explorer discards a diverged execution
			if x.div == nil {
				x.div = &divergence{fmt.Sprintf("at point %d expected alt %d=%q, enabled now: %v", i, p.Idx, p.Label, ls)}
			}
			x.prefix = x.prefix[:i]
		} else {
			c = p.Idx
		}
	}
	x.pmu.Lock()
	x.points = append(x.points, point{alts: append([]Alt{}, alts...), chosen: c})
	x.pmu.Unlock()
	x.Logf("choose[%d] %s", i, alts[c].Label)
	return c
}

// Violation records a property violation observed in this execution.
func (x *Exec) Violation(sig, format string, args ...any) {
	x.viol = append(x.viol, Violation{sig, fmt.Sprintf(format, args...)})
}

// Logf appends to the execution trace (kept for replay files).
func (x *Exec) Logf(format string, args ...any) {
	if x.noTrace {
		return
	}
	x.Trace = append(x.Trace, fmt.Sprintf("%v ", time.Since(epoch).Round(time.Millisecond))+fmt.Sprintf(format, args...))
}

// epoch is the bubble clock's start (2000-01-01 UTC); outside bubbles traces are not meaningful.
var epoch = time.Date(2000, 1, 1, 0, 0, 0, 0, time.UTC)

// Now returns virtual time since the bubble epoch.
func Now() time.Duration { return time.Since(epoch) }

// Picks returns the full choice vector of the execution.
func (x *Exec) Picks() []Pick {
	x.pmu.Lock()
	defer x.pmu.Unlock()
	out := make([]Pick, len(x.points))
	for i, p := range x.points {
		out[i] = Pick{p.chosen, p.alts[p.chosen].Label}
	}
	return out
}

// Explorer enumerates choice vectors.
type Explorer struct {
	Name    string
	Bound   int                         // maximum total deviation cost of a vector (<0: unbounded)
	Run     func(t *testing.T, x *Exec) // runs one execution inside a bubble
	Workers int
	Stop    func() bool // polled; true ends the exploration early (capped)
	// OnViolation is called (serialised) for every violating execution that
	// reproduced on replay.
	OnViolation func(v Violation, picks []Pick, trace []string)

	Executions  atomic.Int64
	Points      atomic.Int64
	Divergent   atomic.Int64
	Replays     atomic.Int64
	MaxDepth    atomic.Int64
	Capped      atomic.Bool
	mu          sync.Mutex
	outcomes    map[string]int
	sampleTrace []string
	flaky       map[string]int
}

// Outcomes returns the number of distinct Outcome strings observed.
func (e *Explorer) Outcomes() int { e.mu.Lock(); defer e.mu.Unlock(); return len(e.outcomes) }

// OutcomeList returns up to n outcomes with their counts, sorted.
func (e *Explorer) OutcomeList(n int) []string {
	e.mu.Lock()
	defer e.mu.Unlock()
	var ks []string
	for k, c := range e.outcomes {
		ks = append(ks, fmt.Sprintf("%s x%d", k, c))
	}
	sort.Strings(ks)
	if len(ks) > n {
		ks = ks[:n]
	}
	return ks
}

func (e *Explorer) SampleTrace() []string { e.mu.Lock(); defer e.mu.Unlock(); return e.sampleTrace }
func (e *Explorer) Flaky() map[string]int { e.mu.Lock(); defer e.mu.Unlock(); return e.flaky }

// runOne executes one vector in a fresh bubble. leaked reports goroutines left
// blocked when the director returned.
// Hang detection. A goroutine that waits for a sync.Mutex / RWMutex is not "durably blocked" for a bubble, so an
// execution in which the code under test deadlocks on a lock never comes to rest: synctest.Wait does not return and
// the whole check would sit there until its wall-clock limit. WatchHangs starts a monitor (outside every bubble) that
// looks at the running executions every 2 s and calls onHang for one it has seen running in `passes` consecutive
// looks (passes of the monitor, not wall-clock time: a suspended process does not age an execution). Executions
// normally last milliseconds. onHang is expected to report and end the process; it is called at most once.
func WatchHangs(passes int, onHang func(explorer string, picks []Pick)) {
	hangOnce.Do(func() {
		go func() {
			for {
				time.Sleep(2 * time.Second)
				var hit *liveExec
				liveMu.Lock()
				for le := range live {
					le.seen++
					if le.seen >= passes && hit == nil {
						hit = le
					}
				}
				liveMu.Unlock()
				if hit != nil {
					onHang(hit.name, hit.x.Picks())
					return
				}
			}
		}()
	})
}

// Reporter is the part of engine/rep a hang report needs.
type Reporter interface {
	Capped(string)
	Violation(sig, desc string, cs any)
	Finish()
}

// ReportHangs turns an execution that has not come to rest after 90 looks of the monitor (3 minutes of its running
// time) into a violation and ends the run.
func ReportHangs(r Reporter) {
	WatchHangs(90, func(name string, picks []Pick) {
		var ls []string
		for _, p := range picks {
			ls = append(ls, p.Label)
		}
		r.Capped("stopped: an execution never came to rest")
		r.Violation("execution-never-comes-to-rest",
			fmt.Sprintf("scenario %q: after the choices [%s] the execution did not come to rest for 3 minutes. Time, channels and every gated call are owned by the harness and cannot cause this: some goroutine waits for a lock that is never released (or spins)", name, strings.Join(ls, "; ")),
			map[string]any{"scenario": name, "choices": picks})
		r.Finish()
	})
}

type liveExec struct {
	name string
	x    *Exec
	seen int
}

var (
	hangOnce sync.Once
	liveMu   sync.Mutex
	live     = map[*liveExec]bool{}
)

func (e *Explorer) runOne(t *testing.T, prefix []Pick, trace bool) (x *Exec, div *divergence, leaked bool, crash string) {
	x = &Exec{prefix: prefix, noTrace: !trace}
	le := &liveExec{name: e.Name, x: x}
	liveMu.Lock()
	live[le] = true
	liveMu.Unlock()
	defer func() {
		liveMu.Lock()
		delete(live, le)
		liveMu.Unlock()
	}()
	func() {
		defer func() {
			if r := recover(); r != nil {
				s := fmt.Sprint(r)
				if strings.Contains(s, "blocked goroutines remain") {
					leaked = true
					return
				}
				crash = s + "\n" + string(debug.Stack())
			}
		}()
		synctest.Test(t, func(t *testing.T) {
			e.Run(t, x)
		})
	}()
	div = x.div
	return
}

type work struct{ prefix []Pick }

// Explore runs the search to completion (or until Stop).
func (e *Explorer) Explore(t *testing.T) {
	if e.Workers <= 0 {
		e.Workers = runtime.NumCPU()
	}
	e.outcomes = map[string]int{}
	e.flaky = map[string]int{}
	var (
		mu      sync.Mutex
		cond    = sync.NewCond(&mu)
		stack   = []work{{}}
		running int
		vmu     sync.Mutex
	)
	var wg sync.WaitGroup
	for w := 0; w < e.Workers; w++ {
		wg.Add(1)
		go func() {
			defer wg.Done()
			for {
				mu.Lock()
				for len(stack) == 0 && running > 0 {
					cond.Wait()
				}
				if len(stack) == 0 {
					mu.Unlock()
					cond.Broadcast()
					return
				}
				wk := stack[len(stack)-1]
				stack = stack[:len(stack)-1]
				running++
				mu.Unlock()

				var children []work
				if e.Stop != nil && e.Stop() {
					e.Capped.Store(true)
				} else {
					children = e.step(t, wk, &vmu)
				}

				mu.Lock()
				running--
				if !e.Capped.Load() {
					// push in reverse so that the first alternative is explored first
					for i := len(children) - 1; i >= 0; i-- {
						stack = append(stack, children[i])
					}
				} else {
					stack = nil
				}
				mu.Unlock()
				cond.Broadcast()
			}
		}()
	}
	wg.Wait()
}

func (e *Explorer) step(t *testing.T, wk work, vmu *sync.Mutex) []work {
	var x *Exec
	var div *divergence
	var leaked bool
	var crash string
	for attempt := 0; attempt < 3; attempt++ {
		x, div, leaked, crash = e.runOne(t, wk.prefix, false)
		if div == nil {
			break
		}
	}
	e.Executions.Add(1)
	if div != nil {
		e.Divergent.Add(1)
		e.mu.Lock()
		if len(e.flaky) < 5 {
			e.flaky[div.msg]++
		}
		e.mu.Unlock()
		return nil
	}
	if crash != "" {
		x.viol = append(x.viol, Violation{"panic-in-director", crash})
	}
	if leaked {
		x.viol = append(x.viol, Violation{"goroutines-left-blocked", "the scenario ended with goroutines of the code under test still blocked (deadlock or missing termination)"})
	}
	e.Points.Add(int64(len(x.points)))
	if d := int64(len(x.points)); d > e.MaxDepth.Load() {
		e.MaxDepth.Store(d)
	}
	e.mu.Lock()
	e.outcomes[x.Outcome]++
	needSample := e.sampleTrace == nil
	e.mu.Unlock()
	if needSample && len(x.points) >= 3 {
		if xs, d2, _, _ := e.runOne(t, x.Picks(), true); d2 == nil {
			e.mu.Lock()
			if e.sampleTrace == nil {
				e.sampleTrace = xs.Trace
			}
			e.mu.Unlock()
		}
	}
	if len(x.viol) > 0 {
		e.confirm(t, x, vmu)
	}
	// children: alternatives at every point not fixed by the prefix
	var children []work
	cost := 0
	picks := x.Picks()
	for i, p := range x.points {
		if i >= len(wk.prefix) {
			for a := 1; a < len(p.alts); a++ {
				if e.Bound >= 0 && cost+p.alts[a].Cost > e.Bound {
					continue
				}
				child := make([]Pick, i+1)
				copy(child, picks[:i])
				child[i] = Pick{a, p.alts[a].Label}
				children = append(children, work{child})
			}
		}
		cost += p.alts[p.chosen].Cost
	}
	return children
}

// confirm replays a violating vector; a violation is reported only if the same
// signature shows up in at least 3 of 5 replays.
func (e *Explorer) confirm(t *testing.T, x *Exec, vmu *sync.Mutex) {
	picks := x.Picks()
	count := map[string]int{}
	var trace []string
	for i := 0; i < 5; i++ {
		e.Replays.Add(1)
		y, div, leaked, crash := e.runOne(t, picks, true)
		if div != nil {
			continue
		}
		if crash != "" {
			y.viol = append(y.viol, Violation{"panic-in-director", crash})
		}
		if leaked {
			y.viol = append(y.viol, Violation{"goroutines-left-blocked", ""})
		}
		seen := map[string]bool{}
		for _, v := range y.viol {
			if !seen[v.Sig] {
				seen[v.Sig] = true
				count[v.Sig]++
			}
		}
		trace = y.Trace
	}
	vmu.Lock()
	defer vmu.Unlock()
	done := map[string]bool{}
	for _, v := range x.viol {
		if done[v.Sig] {
			continue
		}
		done[v.Sig] = true
		if count[v.Sig] >= 3 {
			if e.OnViolation != nil {
				e.OnViolation(v, picks, trace)
			}
		} else {
			e.mu.Lock()
			e.flaky["unreproducible violation "+v.Sig]++
			if os.Getenv("VERIF_DEBUG") != "" {
				fmt.Fprintf(os.Stderr, "UNREPRODUCIBLE %s :: %s\n  picks=%v\n  counts=%v\n  trace=%v\n", v.Sig, v.Desc, picks, count, x.Trace)
			}
			e.mu.Unlock()
		}
	}
}

// Digest is a short stable hash for keys.
func Digest(s string) string {
	h := sha256.Sum256([]byte(s))
	return hex.EncodeToString(h[:6])
}

// ---------------------------------------------------------------------------
// Env: the registry of pending gate calls of one execution.

// Pending is a gate call waiting for the director's answer.
type Pending struct {
	Key   string // content-addressed identity of the call
	Kind  string
	Info  any
	reply chan any
}

type Env struct {
	mu      sync.Mutex
	pending []*Pending
	closed  bool
	seq     map[string]int
	events  chan struct{}
}

func NewEnv() *Env { return &Env{seq: map[string]int{}, events: make(chan struct{}, 1024)} }

// Aborted is returned by Ask after Shutdown.
type Aborted struct{}

// Ask registers a pending call and blocks until the director answers it.
// The key gets a "#n" suffix counting earlier calls with the same key, so
// repeated identical requests are distinguishable and replays deterministic.
func (e *Env) Ask(key, kind string, info any) any {
	e.mu.Lock()
	if e.closed {
		e.mu.Unlock()
		return Aborted{}
	}
	n := e.seq[key]
	e.seq[key] = n + 1
	p := &Pending{Key: fmt.Sprintf("%s#%d", key, n), Kind: kind, Info: info, reply: make(chan any, 1)}
	e.pending = append(e.pending, p)
	e.mu.Unlock()
	select {
	case e.events <- struct{}{}:
	default:
	}
	return <-p.reply
}

// AskCtx is Ask for calls that a context can abandon: when ctx ends first the
// pending call is withdrawn and ctx.Err() returned.
func (e *Env) AskCtx(ctx context.Context, key, kind string, info any) (any, error) {
	e.mu.Lock()
	if e.closed {
		e.mu.Unlock()
		return Aborted{}, nil
	}
	n := e.seq[key]
	e.seq[key] = n + 1
	p := &Pending{Key: fmt.Sprintf("%s#%d", key, n), Kind: kind, Info: info, reply: make(chan any, 1)}
	e.pending = append(e.pending, p)
	e.mu.Unlock()
	select {
	case e.events <- struct{}{}:
	default:
	}
	select {
	case v := <-p.reply:
		return v, nil
	case <-ctx.Done():
		e.mu.Lock()
		for i, q := range e.pending {
			if q == p {
				e.pending = append(e.pending[:i], e.pending[i+1:]...)
				break
			}
		}
		e.mu.Unlock()
		return nil, ctx.Err()
	}
}

// Pending returns the waiting calls sorted by key.
func (e *Env) Pending() []*Pending {
	e.mu.Lock()
	defer e.mu.Unlock()
	out := append([]*Pending{}, e.pending...)
	sort.Slice(out, func(i, j int) bool { return out[i].Key < out[j].Key })
	return out
}

// Answer completes a pending call.
func (e *Env) Answer(p *Pending, v any) {
	e.mu.Lock()
	for i, q := range e.pending {
		if q == p {
			e.pending = append(e.pending[:i], e.pending[i+1:]...)
			break
		}
	}
	e.mu.Unlock()
	p.reply <- v
}

// Notify wakes a director blocked in WaitActivity (e.g. a client thread finished).
func (e *Env) Notify() {
	select {
	case e.events <- struct{}{}:
	default:
	}
}

// WaitActivity lets virtual time run until a gate call arrives or Notify is
// called, or until max virtual time has passed. It returns false on timeout.
// After the first event it keeps the clock running for settle more, so that
// calls which arrive within that window (e.g. timers differing only by jitter)
// are all pending at the next decision point whatever their order.
func (e *Env) WaitActivity(max, settle time.Duration) bool {
	// The director calls this right after synctest.Wait: every other goroutine
	// is durably blocked, so whatever is in the channel is stale.
	e.Drain()
	tm := time.NewTimer(max)
	defer tm.Stop()
	select {
	case <-e.events:
	case <-tm.C:
		return false
	}
	if settle > 0 {
		time.Sleep(settle)
	}
	e.Drain()
	return true
}

// Drain empties the event channel.
func (e *Env) Drain() {
	for {
		select {
		case <-e.events:
		default:
			return
		}
	}
}

// Shutdown aborts every pending and future call.
func (e *Env) Shutdown() {
	e.mu.Lock()
	e.closed = true
	ps := e.pending
	e.pending = nil
	e.mu.Unlock()
	for _, p := range ps {
		p.reply <- Aborted{}
	}
}
