// Package enum is the bounded-exhaustive enumerator (Engine B): an odometer
// over a product of finite alphabets, evaluated in parallel, every case exactly
// once. There is no sampling anywhere in this package.
package enum

import (
	"fmt"
	"runtime"
	"runtime/debug"
	"sync"
	"sync/atomic"
)

// Workers is the degree of parallelism (all cores by default).
var Workers = runtime.NumCPU()

// ParFor runs f(i) for every i in [0,n), each exactly once, on Workers
// goroutines. stop (may be nil) is polled between cases; when it returns true
// the remaining cases are skipped and ParFor returns false.
func ParFor(n int, stop func() bool, f func(i int)) (complete bool) {
	var next atomic.Int64
	var stopped atomic.Bool
	var wg sync.WaitGroup
	w := Workers
	if w > n {
		w = n
	}
	for k := 0; k < w; k++ {
		wg.Add(1)
		go func() {
			defer wg.Done()
			for {
				i := int(next.Add(1) - 1)
				if i >= n {
					return
				}
				if stop != nil && i%64 == 0 && stop() {
					stopped.Store(true)
				}
				if stopped.Load() {
					return
				}
				f(i)
			}
		}()
	}
	wg.Wait()
	return !stopped.Load()
}

// Size returns the number of points of the product space dims.
func Size(dims []int) int {
	n := 1
	for _, d := range dims {
		n *= d
	}
	return n
}

// Decode turns a linear index into odometer digits (last digit fastest).
func Decode(i int, dims []int, out []int) []int {
	out = out[:0]
	for range dims {
		out = append(out, 0)
	}
	for k := len(dims) - 1; k >= 0; k-- {
		out[k] = i % dims[k]
		i /= dims[k]
	}
	return out
}

// Product runs f on every point of the product space, in parallel.
func Product(dims []int, stop func() bool, f func(idx []int)) bool {
	n := Size(dims)
	return ParFor(n, stop, func(i int) {
		f(Decode(i, dims, make([]int, 0, len(dims))))
	})
}

// Catch runs f and converts a panic into a (message, stack) pair.
func Catch(f func()) (panicked bool, msg string, stack string) {
	defer func() {
		if e := recover(); e != nil {
			panicked = true
			msg = fmt.Sprint(e)
			stack = string(debug.Stack())
		}
	}()
	f()
	return
}
